package zap

// Witness scenario for C10 (finding F10): an empty batch built on a recycled builder after a non-empty one must not
// publish the earlier build's section address for its only field.

import (
	"encoding/binary"
	"testing"

	index "github.com/blevesearch/bleve_index_api"
)

func TestScnC10EmptyBatchAfterNonEmpty(t *testing.T) {
	mk := func(n int) []index.Document {
		var docs []index.Document
		for i := 0; i < n; i++ {
			id := string(rune('a' + i))
			docs = append(docs, newStubDocument(id, []*stubField{
				newStubFieldSplitString("_id", nil, id, true, false, false),
				newStubFieldSplitString("f", nil, "x y z", true, true, true),
			}, "_all"))
		}
		return docs
	}
	// section addresses of field 0 as the layout describes them: name length, name, number of sections, then
	// (section type uint16, address uint64) pairs; an empty batch writes no section data, so every address is 0
	addrs := func(mem []byte) []uint64 {
		n, sz := binary.Uvarint(mem)
		pos := uint64(sz) + n
		ns, sz := binary.Uvarint(mem[pos:])
		pos += uint64(sz)
		var out []uint64
		for k := uint64(0); k < ns; k++ {
			out = append(out, binary.BigEndian.Uint64(mem[pos+2:pos+10]))
			pos += 10
		}
		return out
	}
	for round := 0; round < 8; round++ {
		if _, _, err := zapPlugin.newWithChunkMode(mk(5), DefaultChunkMode); err != nil {
			t.Fatal(err)
		}
		s, _, err := zapPlugin.newWithChunkMode(nil, DefaultChunkMode)
		if err != nil {
			t.Fatal(err)
		}
		mem := s.(*SegmentBase).mem
		for _, a := range addrs(mem) {
			if a != 0 {
				t.Fatalf("round %d: empty batch built after a non-empty one: field 0 has section address %#x in a %d-byte segment", round, a, len(mem))
			}
		}
	}
}
