package zap

// Witness scenario for C12 (finding F9): a thesaurus one of whose synonyms is the empty string must still answer
// lookups (the pairs of the batch, including the empty synonym), in memory and after persist and re-open.

import (
	"os"
	"path/filepath"
	"reflect"
	"sort"
	"testing"

	index "github.com/blevesearch/bleve_index_api"
)

func TestScnC12EmptySynonymTerm(t *testing.T) {
	doc := buildTestSynonymDocument("d1", "coll", []string{"a"}, []string{"", "x"})
	sb, err := buildTestSegmentForThesaurus([]index.Document{doc})
	if err != nil {
		t.Fatal(err)
	}
	want := []string{"", "x"}
	thes, err := sb.Thesaurus("coll")
	if err != nil {
		t.Fatalf("in-memory segment: Thesaurus(coll): %v", err)
	}
	got, err := extractSynonymsForTermFromThesaurus(thes, "a", nil)
	sort.Strings(got)
	if err != nil || !reflect.DeepEqual(got, want) {
		t.Errorf("in-memory segment: synonyms of a = %q, err %v; want %q", got, err, want)
	}
	p := filepath.Join(t.TempDir(), "s.zap")
	if err := PersistSegmentBase(sb, p); err != nil {
		t.Fatal(err)
	}
	defer os.Remove(p)
	sg, err := zapPlugin.Open(p)
	if err != nil {
		t.Fatal(err)
	}
	defer sg.Close()
	thes2, err := sg.(*Segment).Thesaurus("coll")
	if err != nil {
		t.Fatalf("re-opened segment: Thesaurus(coll): %v", err)
	}
	got2, err := extractSynonymsForTermFromThesaurus(thes2, "a", nil)
	sort.Strings(got2)
	if err != nil || !reflect.DeepEqual(got2, want) {
		t.Errorf("re-opened segment: synonyms of a = %q, err %v; want %q", got2, err, want)
	}
}
