package zap

// Witness scenario for C08 (finding F1): dictionary entry counts must not depend on the
// entries visited before (the iterator decodes every entry into one scratch postings list).

import (
	"os"
	"strings"
	"path/filepath"
	"testing"

	"github.com/RoaringBitmap/roaring/v2"
	index "github.com/blevesearch/bleve_index_api"
	seg "github.com/blevesearch/scorch_segment_api/v2"
)

// scnNoLocField: an indexed, stored field without term vectors; every token has frequency 1.
func scnNoLocField(name, text string) *stubField {
	freqs := make(index.TokenFrequencies)
	for _, tok := range strings.Fields(text) {
		tf := &index.TokenFreq{Term: []byte(tok)}
		tf.SetFrequency(1)
		freqs[tok] = tf
	}
	return &stubField{name: name, value: []byte(text), encodedType: 't', options: index.IndexField | index.StoreField,
		analyzedLen: len(freqs), analyzedFreqs: freqs}
}

func scnPlainDoc(id string, field string, text string) index.Document {
	d := newStubDocument(id, []*stubField{
		newStubFieldSplitString("_id", nil, id, true, false, false),
		scnNoLocField(field, text),
	}, "_all")
	d.composite = nil
	return d
}

func scnMergeToFile(t *testing.T, dir string, segs []seg.Segment, drops []*roaring.Bitmap) *Segment {
	p := filepath.Join(dir, "merged.zap")
	_ = os.Remove(p)
	_, _, err := zapPlugin.Merge(segs, drops, p, nil, nil)
	if err != nil {
		t.Fatal(err)
	}
	s, err := zapPlugin.Open(p)
	if err != nil {
		t.Fatal(err)
	}
	return s.(*Segment)
}

func TestScnC08CountsIndependentOfHistory(t *testing.T) {
	dir := t.TempDir()
	// term "a" occurs in one document (single-hit entry after a merge), "b" in two
	s1, _, err := zapPlugin.newWithChunkMode([]index.Document{scnPlainDoc("1", "f", "a b"), scnPlainDoc("2", "f", "b")}, DefaultChunkMode)
	if err != nil {
		t.Fatal(err)
	}
	m := scnMergeToFile(t, dir, []seg.Segment{s1.(*SegmentBase)}, []*roaring.Bitmap{nil})
	defer m.Close()
	d, err := m.Dictionary("f")
	if err != nil {
		t.Fatal(err)
	}
	it := d.AutomatonIterator(nil, nil, nil)
	for {
		e, err := it.Next()
		if err != nil {
			t.Fatal(err)
		}
		if e == nil {
			break
		}
		pl, err := d.PostingsList([]byte(e.Term), nil, nil)
		if err != nil {
			t.Fatal(err)
		}
		if e.Count != pl.Count() {
			t.Errorf("term %q: dictionary entry count %d, postings list has %d", e.Term, e.Count, pl.Count())
		}
	}
}
