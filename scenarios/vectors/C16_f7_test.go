//go:build verif && vectors

package zap

// Witness scenario for finding F7 (C16): the id->doc map that createAndCacheLOCKED puts into the shared cache entry
// must not depend on the exclusion bitmap of the query that happened to load it.
// Runs the real cache code; the native engine is the fake of /verif/stubs/fake_engine.json (an index handle with
// no content: ReadIndexFromBuffer returns an empty handle, Close does nothing).

import (
	"encoding/binary"
	"testing"

	"github.com/RoaringBitmap/roaring/v2"
)

func scnVecSection(pairs [][2]int64) []byte {
	var mem []byte
	buf := make([]byte, binary.MaxVarintLen64)
	mem = append(mem, buf[:binary.PutUvarint(buf, uint64(len(pairs)))]...)
	for _, p := range pairs {
		mem = append(mem, buf[:binary.PutVarint(buf, p[0])]...)
		mem = append(mem, buf[:binary.PutUvarint(buf, uint64(p[1]))]...)
	}
	mem = append(mem, buf[:binary.PutUvarint(buf, 0)]...) // index size 0
	return append(mem, make([]byte, 2*binary.MaxVarintLen64)...)
}

func TestScnC16CacheIndependentOfFirstExclusion(t *testing.T) {
	mem := scnVecSection([][2]int64{{10, 0}, {11, 1}, {12, 2}})
	for _, withDocMap := range []bool{false, true} {
		vc := newVectorIndexCache()
		first := roaring.New()
		first.Add(1)
		_, _, _, excl, err := vc.loadOrCreate(1, mem, withDocMap, first)
		if err != nil {
			t.Fatal(err)
		}
		if len(excl) != 1 || excl[0] != 11 {
			t.Fatalf("first caller: vecIDsToExclude = %v, want [11]", excl)
		}
		// second caller of the same segment and field, nothing excluded: every vector must map to its document
		_, vmap, dmap, excl2, err := vc.loadOrCreate(1, mem, withDocMap, nil)
		if err != nil {
			t.Fatal(err)
		}
		if len(excl2) != 0 {
			t.Fatalf("second caller: vecIDsToExclude = %v, want none", excl2)
		}
		for vec, doc := range map[int64]uint32{10: 0, 11: 1, 12: 2} {
			if got, ok := vmap[vec]; !ok || got != doc {
				t.Errorf("loadDocVecIDMap=%v: after a first load with exclusion {1}, the cached map has vector %d -> (%d,%v), want %d: a hit on it would be dropped", withDocMap, vec, got, ok, doc)
			}
			if withDocMap {
				if ids := dmap[doc]; len(ids) != 1 || ids[0] != vec {
					t.Errorf("cached doc->vector map has doc %d -> %v, want [%d]", doc, ids, vec)
				}
			}
		}
		// third caller excluding another document still gets its vectors to exclude
		third := roaring.New()
		third.Add(1)
		third.Add(2)
		_, _, _, excl3, _ := vc.loadOrCreate(1, mem, withDocMap, third)
		if len(excl3) != 2 {
			t.Errorf("third caller (exclusion {1,2}): vecIDsToExclude = %v, want two ids", excl3)
		}
		vc.Clear()
	}
}
