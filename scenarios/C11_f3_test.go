package zap

// Witness scenario for C11 (finding F3): a stored-field visit that stops after the first field must not hand
// its scratch object back to the pool twice (two later callers would share one decode buffer).

import (
	"sync"
	"testing"

	index "github.com/blevesearch/bleve_index_api"
)

func TestScnC11ScratchObjectReturnedOnce(t *testing.T) {
	s1, _, err := zapPlugin.newWithChunkMode([]index.Document{scnPlainDoc("1", "f", "a b"), scnPlainDoc("2", "f", "b")}, DefaultChunkMode)
	if err != nil {
		t.Fatal(err)
	}
	sb := s1.(*SegmentBase)
	// private pool so that other tests do not interfere
	old := visitDocumentCtxPool
	defer func() { visitDocumentCtxPool = old }()
	news := 0
	visitDocumentCtxPool = sync.Pool{New: func() interface{} { news++; return &visitDocumentCtx{} }}
	// early-terminating visit
	err = sb.VisitStoredFields(0, func(field string, typ byte, value []byte, pos []uint64) bool { return false })
	if err != nil {
		t.Fatal(err)
	}
	a := visitDocumentCtxPool.Get().(*visitDocumentCtx)
	b := visitDocumentCtxPool.Get().(*visitDocumentCtx)
	if a == b {
		t.Errorf("the pool handed out the same scratch object twice (double Put after an early-terminated visit)")
	}
}
