package zap

// Witness scenario for C07 (finding F8): an Advance target beyond every 32-bit document number must
// yield "no more hits" (and exhaust the iterator), for every combination of detail flags and exclusion.

import (
	"testing"

	"github.com/RoaringBitmap/roaring/v2"
	index "github.com/blevesearch/bleve_index_api"
)

func TestScnC07AdvanceBeyond32Bits(t *testing.T) {
	s, _, err := zapPlugin.newWithChunkMode([]index.Document{
		scnPlainDoc("1", "f", "b"), scnPlainDoc("2", "f", "b"), scnPlainDoc("3", "f", "b"), scnPlainDoc("4", "f", "b"),
	}, DefaultChunkMode)
	if err != nil {
		t.Fatal(err)
	}
	sb := s.(*SegmentBase)
	d, err := sb.Dictionary("f")
	if err != nil {
		t.Fatal(err)
	}
	excl := roaring.New()
	excl.Add(1)
	for _, except := range []*roaring.Bitmap{nil, excl} {
		for _, detail := range []bool{false, true} {
			pl, err := d.PostingsList([]byte("b"), except, nil)
			if err != nil {
				t.Fatal(err)
			}
			it := pl.Iterator(detail, detail, false, nil)
			first, err := it.Next()
			if err != nil || first == nil || first.Number() != 0 {
				t.Fatalf("first hit: %v %v", first, err)
			}
			for _, target := range []uint64{1 << 32, 1<<32 + 2, 1 << 40} {
				p, err := it.Advance(target)
				if err != nil {
					t.Fatal(err)
				}
				if p != nil {
					t.Errorf("except=%v detail=%v: Advance(%d) returned document %d, which is before the target; want no hit", except != nil, detail, target, p.Number())
				}
			}
			if p, _ := it.Next(); p != nil {
				t.Errorf("except=%v detail=%v: Next after an Advance beyond the last document returned document %d; want no hit", except != nil, detail, p.Number())
			}
		}
	}
}
