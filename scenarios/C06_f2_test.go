package zap

// Witness scenario for C06 (finding F2): a term whose only posting has norm bits 0 must survive a merge.

import (
	"testing"

	"github.com/RoaringBitmap/roaring/v2"
	index "github.com/blevesearch/bleve_index_api"
	seg "github.com/blevesearch/scorch_segment_api/v2"
)

func TestScnC06SingleHitWithZeroNormSurvivesMerge(t *testing.T) {
	dir := t.TempDir()
	f := scnNoLocField("f", "solo")
	f.analyzedLen = 0 // norm = 0 -> norm bits 0
	doc := newStubDocument("1", []*stubField{newStubFieldSplitString("_id", nil, "1", true, false, false), f}, "_all")
	doc.composite = nil
	s1, _, err := zapPlugin.newWithChunkMode([]index.Document{doc}, DefaultChunkMode)
	if err != nil {
		t.Fatal(err)
	}
	check := func(name string, s seg.Segment) {
		d, err := s.Dictionary("f")
		if err != nil {
			t.Fatal(err)
		}
		pl, err := d.PostingsList([]byte("solo"), nil, nil)
		if err != nil {
			t.Fatal(err)
		}
		if pl.Count() != 1 {
			t.Errorf("%s: term solo has %d postings, want 1", name, pl.Count())
			return
		}
		p, err := pl.Iterator(true, true, false, nil).Next()
		if err != nil || p == nil || p.Number() != 0 {
			t.Errorf("%s: term solo: iterator returned %v, %v", name, p, err)
		}
	}
	check("built", s1)
	m := scnMergeToFile(t, dir, []seg.Segment{s1.(*SegmentBase)}, []*roaring.Bitmap{nil})
	defer m.Close()
	check("merged", m)
}
