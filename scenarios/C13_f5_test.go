package zap

// Witness scenario for C13 (finding F5): every left-hand term of a thesaurus survives a merge, including the empty term.

import (
	"testing"

	"github.com/RoaringBitmap/roaring/v2"
	index "github.com/blevesearch/bleve_index_api"
	seg "github.com/blevesearch/scorch_segment_api/v2"
)

func scnThesTerms(t *testing.T, s seg.Segment, name string) []string {
	ts, ok := s.(seg.ThesaurusSegment)
	if !ok {
		t.Fatal("no thesaurus support")
	}
	th, err := ts.Thesaurus(name)
	if err != nil {
		t.Fatal(err)
	}
	it := th.AutomatonIterator(nil, nil, nil)
	var out []string
	for {
		e, err := it.Next()
		if err != nil {
			t.Fatal(err)
		}
		if e == nil {
			break
		}
		out = append(out, e.Term)
	}
	return out
}

func TestScnC13EmptyTermSurvivesMerge(t *testing.T) {
	dir := t.TempDir()
	d1 := buildTestSynonymDocument("s1", "coll", []string{"", "b", "c"}, []string{"x", "y"})
	s1, err := buildTestSegmentForThesaurus([]index.Document{d1})
	if err != nil {
		t.Fatal(err)
	}
	before := scnThesTerms(t, s1, "coll")
	m := scnMergeToFile(t, dir, []seg.Segment{s1}, []*roaring.Bitmap{nil})
	defer m.Close()
	after := scnThesTerms(t, m, "coll")
	if len(before) != len(after) {
		t.Errorf("left-hand terms before merge %q, after merge %q", before, after)
	}
}
