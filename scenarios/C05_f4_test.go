package zap

// Witness scenario for C05 (finding F4): merging with every document deleted must give a valid empty segment.

import (
	"os"
	"path/filepath"
	"testing"

	"github.com/RoaringBitmap/roaring/v2"
	index "github.com/blevesearch/bleve_index_api"
	seg "github.com/blevesearch/scorch_segment_api/v2"
)

func TestScnC05NothingSurvives(t *testing.T) {
	dir := t.TempDir()
	s1, _, err := zapPlugin.newWithChunkMode([]index.Document{scnPlainDoc("1", "f", "a b"), scnPlainDoc("2", "g", "b")}, DefaultChunkMode)
	if err != nil {
		t.Fatal(err)
	}
	all := roaring.New()
	all.AddRange(0, 2)
	p := filepath.Join(dir, "m.zap")
	_ = os.Remove(p)
	newDocNums, _, err := zapPlugin.Merge([]seg.Segment{s1.(*SegmentBase)}, []*roaring.Bitmap{all}, p, nil, nil)
	if err != nil {
		t.Fatal(err)
	}
	if len(newDocNums) != 1 || len(newDocNums[0]) != 2 || newDocNums[0][0] != docDropped || newDocNums[0][1] != docDropped {
		t.Errorf("doc number maps: got %v, want one map sending both documents to the sentinel", newDocNums)
	}
	sx, err := zapPlugin.Open(p)
	if err != nil {
		t.Fatal(err)
	}
	m := sx.(*Segment)
	defer m.Close()
	if m.Count() != 0 {
		t.Errorf("count %d", m.Count())
	}
	want := map[string]bool{"_id": true, "f": true, "g": true}
	got := m.Fields()
	for _, f := range got {
		if !want[f] {
			t.Errorf("unexpected field %q", f)
		}
		delete(want, f)
	}
	if len(want) != 0 {
		t.Errorf("Fields() = %v, missing %v (union of the inputs' fields)", got, want)
	}
	func() {
		defer func() {
			if r := recover(); r != nil {
				t.Errorf("DocNumbers on the empty merged segment panicked: %v", r)
			}
		}()
		bm, err := m.DocNumbers([]string{"1"})
		if err != nil {
			t.Errorf("DocNumbers: %v", err)
		} else if bm != nil && !bm.IsEmpty() {
			t.Errorf("DocNumbers: %v", bm)
		}
	}()
}
