module stubgen

go 1.23
