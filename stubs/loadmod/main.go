package loadmod

import _ "github.com/blevesearch/zapx/v16"
