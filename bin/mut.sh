#!/bin/bash
# usage: mut.sh <file> <sed-expr> [zvc args...]   -- run zvc on a scratch copy of /repo with one edit
set -e
f=$1; e=$2; shift 2
d=$(mktemp -d /tmp/zvcmut.XXXXXX)
rsync -a --exclude .git /repo/ $d/
sed -i "$e" $d/$f
if diff -q /repo/$f $d/$f >/dev/null; then echo "MUTATION DID NOT APPLY"; rm -rf $d; exit 3; fi
(cd $d && GOFLAGS=-mod=mod GOPROXY=off GOSUMDB=off GOTOOLCHAIN=local go build ./... ) || { echo "MUTANT DOES NOT COMPILE"; rm -rf $d; exit 3; }
/verif/bin/zvc -repo $d "$@" | tail -8
rm -rf $d
