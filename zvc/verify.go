package main

// Per-function driver: build the context, translate, emit obligations and queries.

import (
	"fmt"
	"go/types"
	"sort"
	"strings"
	"sync"

	"golang.org/x/tools/go/ssa"
)

func (g *Gen) newFnCtx(fn *ssa.Function, sp *FuncSpec) *FnCtx {
	fc := &FnCtx{g: g, fn: fn, spec: sp, declared: map[string]string{}, sorts: map[string]string{}, assumpt: map[string]bool{},
		locals: map[*ssa.Alloc]bool{}, callOrd: map[string]int{}, closures: map[ssa.Value]*ssa.MakeClosure{}, propFlags: map[int][]propFlag{}, tolFlags: map[int][]propFlag{}, folA: map[int][]propFlag{}, folB: map[int][]propFlag{}, onlyFlags: map[int][]propFlag{}, ground: map[string]bool{}, localMaps: map[string]bool{}, refArr: map[string]bool{},
		modMemo: map[*ssa.Function]*ModSet{}, modBusy: map[*ssa.Function]bool{}}
	if sp.Mode == "bv" {
		fc.m = M{ModeBV}
	} else {
		fc.m = M{ModeInt}
	}
	fc.thin = sp.Level == "thin"
	fc.regArr("$top", "Int")
	return fc
}

func (fc *FnCtx) prelude() string {
	is := fc.m.idxSort()
	var sb strings.Builder
	sb.WriteString("(declare-sort Str 0)\n")
	sb.WriteString("(declare-fun strlen (Str) " + is + ")\n")
	sb.WriteString("(declare-fun strid (Str) Int)\n")
	usesStr := false
	for _, d := range fc.decls {
		if strings.Contains(d, "Str") {
			usesStr = true
			break
		}
	}
	if usesStr {
		if fc.m.mode == ModeInt {
			sb.WriteString("(assert (forall ((s Str)) (! (>= (strlen s) 0) :pattern ((strlen s)))))\n")
		} else {
			sb.WriteString("(assert (forall ((s Str)) (! (bvsge (strlen s) (_ bv0 64)) :pattern ((strlen s)))))\n")
		}
	}
	return sb.String()
}

func (g *Gen) verifyFunction(fn *ssa.Function, sp *FuncSpec) *FnCtx {
	fc := g.newFnCtx(fn, sp)
	fc.computeAnc(fn)
	fc.computeSiteOrdinals(fn)
	fr := fc.newFrame(fn, nil)
	fr.isTop = true
	fr.params = map[string]Val{}
	fc.top = fr
	fc.curBlock = fn.Blocks[0]
	entry := fc.baseState()
	fc.entry = entry
	names := sp.paramNames(fn, fn.Signature, false)
	for i, p := range fn.Params {
		v := fc.freshVal(p.Type(), "p!"+p.Name())
		fr.vals[p] = v
		fc.define(fc.typingFacts(entry, v))
		if i < len(names) {
			fr.params[names[i]] = v
		}
		fr.params[p.Name()] = v
	}
	if fn.Signature.Recv() != nil && len(fn.Params) > 0 && kindOf(fn.Params[0].Type()) == KRef {
		fc.define(sNot(sEq(fr.vals[fn.Params[0]].S, "0")))
		fc.note("method receivers are assumed non-nil")
	}
	// free variables of a closure under contract: addressable cells
	for _, fv := range fn.FreeVars {
		v := fc.freshVal(fv.Type(), "fv!"+fv.Name())
		fr.bindings = append(fr.bindings, v)
		fr.bindAddr = append(fr.bindAddr, &Addr{Kind: aCell, Obj: v.S})
		fc.define(sx(">", v.S, "0"))
	}
	// each free variable is the cell of a different captured variable
	if len(fr.bindings) > 1 {
		var cs []string
		for _, v := range fr.bindings {
			cs = append(cs, v.S)
		}
		fc.define(sx("distinct", cs...))
	}
	// requires (evaluated in the caller-visible entry state, before entry ghost assignments)
	env := fr.specEnv(entry, nil, nil)
	env.old = entry
	var reqs []string
	for _, c := range sp.Requires {
		if !fc.modeOK(c) {
			continue
		}
		f := env.bool(c.Expr)
		reqs = append(reqs, f)
		fc.assumeC(f, "precondition "+c.Text, c, sp.Name)
	}
	for _, c := range fc.globalInvs() {
		fc.assume(env.bool(c.Expr), "global invariant "+c.Site+" on entry")
	}
	runSt := entry
	for _, gi := range sp.GhostInits {
		names := fc.g.modEntryNames(fc, sp, "ghost "+gi[0])
		ve, err := parseSExpr(gi[1])
		if err != nil || len(names) != 1 {
			fc.errs = append(fc.errs, "ghostinit: cannot parse "+gi[0])
			continue
		}
		vv := env.with(runSt).tr(ve)
		runSt = runSt.setRaw(names[0], vv.S)
	}
	fr.run(runSt, "true")
	fr.entrySt = entry

	// returns
	rnames := sp.Results
	sig := fn.Signature
	if rnames == nil {
		for i := 0; i < sig.Results().Len(); i++ {
			rnames = append(rnames, sig.Results().At(i).Name())
		}
	}
	// `loop N nobreak`: no edge leaves the loop from inside its body except towards a return
	for _, c := range sp.NoBreak {
		var li *loopInfo
		for _, l := range fr.loops {
			if l.ord == c.Loop {
				li = l
			}
		}
		if li == nil {
			fc.errs = append(fc.errs, fmt.Sprintf("%s: loop %d nobreak: no such loop", sp.Name, c.Loop))
			continue
		}
		endsInReturn := func(b *ssa.BasicBlock) bool {
			// a block (chain) that does nothing but return (possibly after running defers)
			seen := 0
			for b != nil && seen < 4 {
				seen++
				if len(b.Instrs) > 0 {
					if _, ok := b.Instrs[len(b.Instrs)-1].(*ssa.Return); ok {
						return true
					}
				}
				if len(b.Succs) != 1 {
					return false
				}
				b = b.Succs[0]
			}
			return false
		}
		// the block the loop's head leaves to when the loop is exhausted: an edge from the body to that very block is a
		// break even when the block does nothing but return
		normalExit := map[*ssa.BasicBlock]bool{}
		for _, s2 := range li.head.Succs {
			if !li.blocks[s2] {
				normalExit[s2] = true
			}
		}
		for b := range li.blocks {
			if b == li.head {
				continue
			}
			for _, s2 := range b.Succs {
				if li.blocks[s2] || (endsInReturn(s2) && !normalExit[s2]) {
					continue
				}
				ec := fr.edge[[2]int{b.Index, s2.Index}]
				if ec == "" {
					continue
				}
				fc.addObligAt(&Oblig{Name: fmt.Sprintf("%s/nobreak#L%d@b%d", sp.Name, c.Loop, b.Index), Kind: "nobreak", Tags: c.Tags,
					goal: sNot(ec), Text: c.Text + ": the loop is left only through its head or by a return", Spec: c}, s2, 0)
			}
		}
	}
	// returns taken from inside a loop (dominated by its head, not reachable from its normal exit): `loop N early E`
	for _, c := range sp.Early {
		var li *loopInfo
		for _, l := range fr.loops {
			if l.ord == c.Loop {
				li = l
			}
		}
		if li == nil {
			fc.errs = append(fc.errs, fmt.Sprintf("%s: loop %d early: no such loop", sp.Name, c.Loop))
			continue
		}
		after := map[*ssa.BasicBlock]bool{}
		var work []*ssa.BasicBlock
		for _, s2 := range li.head.Succs {
			if !li.blocks[s2] {
				work = append(work, s2)
			}
		}
		for len(work) > 0 {
			x := work[len(work)-1]
			work = work[:len(work)-1]
			if after[x] || li.blocks[x] {
				continue
			}
			after[x] = true
			work = append(work, x.Succs...)
		}
		k := 0
		for _, r := range fr.rets {
			if r.block == nil || after[r.block] || !(li.head.Dominates(r.block)) {
				continue
			}
			k++
			env := fr.specEnv(r.state, r.block, nil)
			env.lookup = func(name string, s2 *State) (Val, bool) { return fr.lookupLocalAt(name, s2, r.block, nil) }
			for i, v := range r.res {
				env.names[fmt.Sprintf("result%d", i)] = v
				if i < len(rnames) && rnames[i] != "" && rnames[i] != "_" {
					env.names[rnames[i]] = v
				}
			}
			f := env.bool(c.Expr)
			fc.addObligAt(&Oblig{Name: fmt.Sprintf("%s/early#L%d.%d@b%d", sp.Name, c.Loop, c.Ord, r.block.Index), Kind: "early", Tags: c.Tags,
				goal: sImp(r.guard, f), Text: c.Text, Spec: c}, r.block, r.seq)
		}
		_ = k
	}
	if len(fr.rets) > 0 {
		// one virtual exit: results and state merged over all returns
		var sts []*State
		var conds []string
		nres := len(fr.rets[0].res)
		for _, r := range fr.rets {
			sts = append(sts, r.state)
			conds = append(conds, r.guard)
		}
		exitSt := fc.mergeStates(sts, conds)
		exitG := sOr(conds...)
		var res []Val
		for i := 0; i < nres; i++ {
			var vs []Val
			for _, r := range fr.rets {
				vs = append(vs, r.res[i])
			}
			res = append(res, fr.nameVal(fr.mergeVals(sig.Results().At(i).Type(), vs, conds), fmt.Sprintf("ret%d", i)))
		}
		r := retInfo{block: nil, seq: 1 << 30, guard: exitG, res: res, state: exitSt}
		// ghost assignments performed at return (specification-only state)
		if len(sp.GhostSets) > 0 {
			genv := fr.specEnv(r.state, nil, nil)
			for i, v := range res {
				genv.names[fmt.Sprintf("result%d", i)] = v
				if i < len(rnames) && rnames[i] != "" && rnames[i] != "_" {
					genv.names[rnames[i]] = v
				}
			}
			if len(res) == 1 {
				genv.names["result"] = res[0]
			}
			for _, gs := range sp.GhostSets {
				ve, err2 := parseSExpr(gs[2])
				names := fc.g.modEntryNames(fc, sp, "ghost "+gs[0])
				if err2 != nil || len(names) != 1 {
					fc.errs = append(fc.errs, "ghostset: cannot parse "+gs[0])
					continue
				}
				if gs[1] == "" {
					vv := genv.with(r.state).tr(ve)
					r.state = r.state.setRaw(names[0], vv.S)
					genv.state = r.state
					continue
				}
				ke, err1 := parseSExpr(gs[1])
				if err1 != nil {
					fc.errs = append(fc.errs, "ghostset: cannot parse "+gs[0])
					continue
				}
				kv := genv.with(r.state).tr(ke)
				k := kv.S
				if kindOf(kv.T) == KIface {
					k = kv.Sub[1].S
				}
				vv := genv.with(r.state).tr(ve)
				if vv.Untyped {
					vv = genv.coerce(vv, tInt)
				}
				r.state = r.state.store(names[0], sx("store", r.state.get(names[0]), k, vv.S))
				genv.state = r.state
			}
		}
		fc.exit = &r
		renv := fr.specEnv(r.state, nil, nil)
		renv.lookup = func(n string, st *State) (Val, bool) { return fr.lookupExitLocal(n, st) }
		for i, v := range r.res {
			renv.names[fmt.Sprintf("result%d", i)] = v
			if i < len(rnames) && rnames[i] != "" && rnames[i] != "_" {
				renv.names[rnames[i]] = v
			}
		}
		if len(r.res) == 1 {
			renv.names["result"] = r.res[0]
		}
		suffix := ""
		for _, c := range fc.globalInvs() {
			fc.addObligAt(&Oblig{Name: fmt.Sprintf("%s/global-inv:%s", sp.Name, c.Site), Kind: "ensures", Tags: c.Tags,
				goal: sImp(r.guard, renv.bool(c.Expr)), Text: "global invariant " + c.Site + ": " + c.Text, Spec: c}, r.block, r.seq)
		}
		for _, c := range sp.Ensures {
			if !fc.modeOK(c) || c.GhostDef {
				continue
			}
			if c.Expr.Op == "call" && c.Expr.Name == "clean" && len(c.Expr.Args) == 1 {
				// one obligation per field
				v := renv.tr(c.Expr.Args[0])
				var stT types.Type
				if p, ok := v.T.Underlying().(*types.Pointer); ok {
					stT = p.Elem()
				}
				if stT != nil {
					for _, part := range renv.cleanParts(v.S, stT) {
						o := &Oblig{Name: fmt.Sprintf("%s/ensures#%d.%s", sp.Name, c.Ord, part[0]), Kind: "ensures", Tags: c.Tags, goal: sImp(r.guard, part[1]),
							Text: "after reset, field " + part[0] + " is in its declared clean state", Spec: c}
						fc.addObligAt(o, r.block, r.seq)
					}
					continue
				}
			}
			f := renv.bool(c.Expr)
			o := &Oblig{Name: fmt.Sprintf("%s/ensures#%d%s", sp.Name, c.Ord, suffix), Kind: "ensures", Tags: c.Tags, goal: sImp(r.guard, f), Text: c.Text, Spec: c}
			fc.addObligAt(o, r.block, r.seq)
		}
		// error propagation
		for _, c := range sp.Props {
			resName := c.Args[0]
			rv, ok := renv.names[resName]
			if !ok || kindOf(rv.T) != KIface {
				fc.errs = append(fc.errs, fmt.Sprintf("%s: propagates: no interface result %q", sp.Name, resName))
				continue
			}
			var fl []string
			for _, p := range fc.propFlags[c.Ord] {
				fl = append(fl, p.cond)
			}
			goal := sImp(sAnd(r.guard, sOr(fl...)), sNot(sEq(rv.Sub[0].S, "0")))
			o := &Oblig{Name: fmt.Sprintf("%s/propagates#%d%s", sp.Name, c.Ord, suffix), Kind: "propagates", Tags: c.Tags, goal: goal, Text: "propagates " + c.Text}
			fc.addObligAt(o, r.block, r.seq)
		}
		// failure sources: a non-nil error result implies a listed callee failed on this path
		for _, c := range sp.Only {
			rv, ok := renv.names[c.Args[0]]
			if !ok || kindOf(rv.T) != KIface {
				fc.errs = append(fc.errs, fmt.Sprintf("%s: failsonly: no interface result %q", sp.Name, c.Args[0]))
				continue
			}
			var fl []string
			for _, p := range fc.onlyFlags[c.Ord] {
				fl = append(fl, p.cond)
			}
			for _, f := range c.Args[1:] {
				found := false
				for _, p := range fc.onlyFlags[c.Ord] {
					if p.callee == f || strings.HasSuffix(p.callee, "."+f) {
						found = true
					}
				}
				if !found {
					fc.errs = append(fc.errs, fmt.Sprintf("%s: failsonly: %q is not called (or returns no error)", sp.Name, f))
				}
			}
			fl = append(fl, renv.bool(c.Expr))
			goal := sImp(sAnd(r.guard, sNot(sEq(rv.Sub[0].S, "0"))), sOr(fl...))
			o := &Oblig{Name: fmt.Sprintf("%s/failsonly#%d", sp.Name, c.Ord), Kind: "failsonly", Tags: c.Tags, goal: goal, Text: "failsonly " + c.Text, Spec: c}
			fc.addObligAt(o, r.block, r.seq)
		}
		// follows: after A returned with E, B is called before a successful return
		for _, c := range sp.Follows {
			var fa, fb []string
			for _, p := range fc.folA[c.Ord] {
				fa = append(fa, p.cond)
			}
			for _, p := range fc.folB[c.Ord] {
				fb = append(fb, p.cond)
			}
			if len(fa) == 0 {
				fc.errs = append(fc.errs, fmt.Sprintf("%s: follows %q: %s is not called", sp.Name, c.Text, c.Args[1]))
				continue
			}
			ok := "true"
			for i := len(r.res) - 1; i >= 0; i-- {
				if kindOf(r.res[i].T) == KIface && i < len(rnames) {
					ok = sEq(r.res[i].Sub[0].S, "0") // the function's error result is nil
					break
				}
			}
			goal := sImp(sAnd(r.guard, ok, sOr(fa...)), sOr(fb...))
			o := &Oblig{Name: fmt.Sprintf("%s/follows#%d", sp.Name, c.Ord), Kind: "follows", Tags: c.Tags, goal: goal, Text: "follows " + c.Text, Spec: c}
			fc.addObligAt(o, r.block, r.seq)
		}
		// tolerated error values: once a listed callee has returned the value, this activation does not return it
		for _, c := range sp.Tols {
			rv, ok := renv.names[c.Args[0]]
			if !ok || kindOf(rv.T) != KIface {
				fc.errs = append(fc.errs, fmt.Sprintf("%s: tolerates: no interface result %q", sp.Name, c.Args[0]))
				continue
			}
			var fl []string
			for _, p := range fc.tolFlags[c.Ord] {
				fl = append(fl, p.cond)
			}
			if len(fl) == 0 {
				fc.errs = append(fc.errs, fmt.Sprintf("%s: tolerates %q does not bind to a call", sp.Name, c.Text))
				continue
			}
			ev := renv.tr(c.Expr)
			goal := sImp(sAnd(r.guard, sOr(fl...)), sNot(renv.equal(rv, ev)))
			o := &Oblig{Name: fmt.Sprintf("%s/tolerates#%d", sp.Name, c.Ord), Kind: "tolerates", Tags: c.Tags, goal: goal, Text: "tolerates " + c.Text, Spec: c}
			fc.addObligAt(o, r.block, r.seq)
		}
		// explicit frame
		if sp.HasMod && !fc.thin {
			fc.frameObligs(fr, r, suffix)
		}
		if sp.HasMod && fc.thin {
			// thin mode: the declared frame is checked at array-name granularity against the set inferred from the body
			inf := fc.g.bodyMods(fc, fn)
			decl := newModSet()
			fc.g.specMods(fc, sp, decl)
			if inf.All {
				fc.note("frame of thin function " + sp.Name + " is assumed (a callee without contract or frame is reachable)")
			} else if !decl.All {
				var missing []string
				for n := range inf.Names {
					if !decl.has(n) && !strings.HasPrefix(n, "L?") && !strings.HasPrefix(n, "FV?") && !fc.isLocalArr(n) {
						missing = append(missing, n)
					}
				}
				sort.Strings(missing)
				goal := "true"
				if len(missing) > 0 {
					goal = "false"
				}
				fc.addObligAt(&Oblig{Name: sp.Name + "/frame:names", Kind: "frame", Tags: sp.allTags(), goal: goal,
					Text: "every array the body may write is listed in modifies; missing: " + strings.Join(missing, " ")}, nil, 1<<30)
				fc.note("frame of thin function " + sp.Name + " checked at array-name granularity only; object-level entries are assumed")
			}
		}
	}
	// process-wide state: the package-level variables the body (with the callees it is verified together with) touches
	// are the declared ones, and the read-only ones are not assigned
	if len(fc.g.specs.PkgState) > 0 {
		acc, wr := fc.g.pkgStateAccess(fn)
		var bad []string
		for n := range acc {
			k, ok := fc.g.specs.PkgState[n]
			if !ok {
				if fc.g.autoReadonly(n) {
					continue
				}
				bad = append(bad, n+" (undeclared)")
			} else if k == "readonly" && wr[n] {
				bad = append(bad, n+" (assigned, declared readonly)")
			}
		}
		// a root of a cone answers for every function reachable from it, under contract or not
		for t, roots := range fc.g.specs.Cones {
			for _, r := range roots {
				if r != sp.Name {
					continue
				}
				cacc, cwr, where := fc.g.coneAccess(t)
				var cbad []string
				for n := range cacc {
					k, ok := fc.g.specs.PkgState[n]
					if !ok {
						if fc.g.autoReadonly(n) {
							continue
						}
						cbad = append(cbad, n+" (undeclared, in "+where[n]+")")
					} else if k == "readonly" && cwr[n] {
						cbad = append(cbad, n+" (assigned, declared readonly)")
					}
				}
				sort.Strings(cbad)
				cg := "true"
				if len(cbad) > 0 {
					cg = "false"
				}
				fc.addObligAt(&Oblig{Name: sp.Name + "/frame:pkgstate-cone:" + t, Kind: "frame", Tags: []string{t}, goal: cg,
					Text: fmt.Sprintf("package-level variables touched by the %d functions reachable from here are declared process state; offending: %s", len(fc.g.coneFns[t]), strings.Join(cbad, " "))}, nil, 1<<30)
			}
		}
		sort.Strings(bad)
		goal := "true"
		if len(bad) > 0 {
			goal = "false"
		}
		tg := sp.allTags()
		for t := range fc.g.specs.Cones {
			if fc.g.inCone(t, fnName(fn)) && !hasTag(tg, t) {
				tg = append(tg, t)
			}
		}
		sort.Strings(tg)
		fc.addObligAt(&Oblig{Name: sp.Name + "/frame:pkgstate", Kind: "frame", Tags: tg, goal: goal,
			Text: "package-level variables touched are declared process state (pkgstate); offending: " + strings.Join(bad, " ")}, nil, 1<<30)
	}
	// loops carrying a failed-call flag: the flag must be false when the loop head is reached again
	for _, c := range sp.Props {
		for _, li := range fr.loops {
			var fl []string
			for _, p := range fc.propFlags[c.Ord] {
				if li.blocks[p.block] {
					fl = append(fl, p.cond)
				}
			}
			if len(fl) == 0 {
				continue
			}
			for _, bb := range li.backs {
				ec := fr.edge[[2]int{bb.Index, li.head.Index}]
				if ec == "" {
					continue
				}
				var fl2 []string
				for _, p := range fc.propFlags[c.Ord] {
					if li.blocks[p.block] && (p.block == bb || fc.anc[bb][p.block]) {
						fl2 = append(fl2, p.cond)
					}
				}
				o := &Oblig{Name: fmt.Sprintf("%s/propagates#%d@loop%d.b%d", sp.Name, c.Ord, li.ord, bb.Index), Kind: "propagates", Tags: c.Tags,
					goal: sImp(ec, sNot(sOr(fl2...))), Text: "no failed call is carried into the next iteration (" + c.Text + ")"}
				fc.addObligAt(o, bb, 1<<30)
			}
		}
	}
	// vacuity: the precondition (with typing) is satisfiable, and each return is reachable
	if len(sp.Requires) > 0 {
		fc.addObligAt(&Oblig{Name: sp.Name + "/cover:requires", Kind: "cover", Cover: true, goal: sAnd(reqs...), Tags: sp.allTags(), Text: "precondition satisfiable"}, fn.Blocks[0], 0)
	}
	if len(fc.obligs) > 0 {
		if fc.exit != nil {
			fc.addObligAt(&Oblig{Name: sp.Name + "/cover:return", Kind: "cover", Cover: true, goal: fc.exit.guard, Tags: sp.allTags(), Text: "a return is reachable under the assumptions"}, nil, 1<<30)
		}
	}
	for _, c := range sp.Assumes {
		if !c.bound {
			fc.errs = append(fc.errs, fmt.Sprintf("%s: call-site assumption %q does not bind to a call (site %s)", sp.Name, c.Text, c.Site))
		}
		c.bound = false
	}
	for _, c := range sp.Asserts {
		if !c.bound && fc.modeOK(c) {
			fc.errs = append(fc.errs, fmt.Sprintf("%s: call-site assertion %q does not bind to a call (site %s)", sp.Name, c.Text, c.Site))
		}
		c.bound = false
	}
	fc.applyAxioms()
	return fc
}

func (sp *FuncSpec) allTags() []string {
	set := map[string]bool{}
	for _, t := range sp.Tags {
		set[t] = true
	}
	for _, cs := range [][]*Clause{sp.Requires, sp.Ensures, sp.Invs, sp.Asserts, sp.Props, sp.Tols, sp.Only, sp.Steps, sp.Early, sp.NoBreak, sp.Follows} {
		for _, c := range cs {
			for _, t := range c.Tags {
				set[t] = true
			}
		}
	}
	return sortedKeys(set)
}

func (fc *FnCtx) addObligAt(o *Oblig, b *ssa.BasicBlock, seq int) {
	if fc.relMode && !strings.HasPrefix(o.Kind, "rel") && !strings.HasSuffix(o.Name, "/rel-cover") {
		return
	}
	o.block = b
	o.seq = seq
	o.Fn = fc.spec.Name
	if len(o.Tags) == 0 {
		o.Tags = fc.spec.allTags()
	}
	fc.obligs = append(fc.obligs, o)
}

// frameObligs: arrays not listed in modifies are unchanged for pre-existing objects.
func (fc *FnCtx) frameObligs(fr *Frame, r retInfo, suffix string) {
	ms := newModSet()
	fc.g.specModsP(fc, fc.spec, ms, false)
	if ms.All {
		return
	}
	for _, n := range fc.g.freshMods(fc, fc.spec) {
		_ = n // rows of fresh objects: covered by the pre-existing-object quantifier below
	}
	penv := fr.specEnv(fc.entry, nil, nil)
	pkeys := map[string][]string{}
	for _, pm := range fc.g.pointMods(fc, fc.spec) {
		kv := penv.tr(pm.key)
		k := kv.S
		if kindOf(kv.T) == KIface {
			k = kv.Sub[1].S
		}
		if pm.cond != nil {
			// a guarded entry: when the guard is false the key is one the array is already allowed to keep (no-op store)
			k = "(ite " + penv.bool(pm.cond) + " " + k + " (- 987654321))"
		}
		for _, n := range pm.names {
			pkeys[n] = append(pkeys[n], k)
		}
	}
	var names []string
	for n := range fc.sorts {
		names = append(names, n)
	}
	sort.Strings(names)
	for _, n := range names {
		if ms.has(n) || n == "$top" || fc.isLocalArr(n) || strings.HasPrefix(n, "GV!") {
			continue
		}
		a, b := fc.entry.get(n), r.state.get(n)
		if a == b {
			continue
		}
		srt := fc.sorts[n]
		var goal string
		if ks, ok := pkeys[n]; ok {
			t := a
			for _, k := range ks {
				t = sx("store", t, k, sx("select", b, k))
			}
			a = t
		}
		if strings.HasPrefix(srt, "(Array Int ") && !isGhostArr(n) {
			goal = fmt.Sprintf("(forall ((q!r Int)) (=> (<= q!r %s) (= (select %s q!r) (select %s q!r))))", fc.entry.get("$top"), a, b)
		} else {
			goal = sEq(a, b)
		}
		fc.addObligAt(&Oblig{Name: fmt.Sprintf("%s/frame:%s%s", fc.spec.Name, n, suffix), Kind: "frame", Tags: fc.spec.allTags(), goal: sImp(r.guard, goal), Text: n + " unchanged on pre-existing objects"}, r.block, r.seq)
	}
}

func (fc *FnCtx) applyAxioms() {
	modeName := "int"
	if fc.m.mode == ModeBV {
		modeName = "bv"
	}
	// An axiom is added when it can matter: for a quantified axiom with triggers, when every spec function of at least
	// one trigger group already occurs in the verification condition (otherwise it can never be instantiated);
	// for the others, when any of its functions or globals occurs. Adding an axiom may introduce new functions,
	// so this runs to a fixpoint.
	done := map[string]bool{}
	for changed := true; changed; {
		changed = false
		for _, ax := range fc.g.specs.Axioms {
			if done[ax.Name] || (ax.Mode != "" && ax.Mode != modeName) {
				continue
			}
			if ax.Optional {
				used := false
				if fc.spec != nil {
					for _, u := range fc.spec.Uses {
						if u == ax.Name {
							used = true
						}
					}
				}
				if !used {
					continue
				}
			}
			if !fc.axiomRelevant(ax.Expr) || !fc.axiomTriggerable(ax.Expr) {
				continue
			}
			done[ax.Name] = true
			changed = true
			env := &Env{fc: fc, state: fc.entry, pkg: fc.g.pkg.Pkg, errs: &fc.errs, names: map[string]Val{}}
			f := env.bool(ax.Expr)
			fc.define(f)
			fc.note("axiom " + ax.Name + ": " + ax.Text)
		}
	}
}

// axiomTriggerable: for a top-level quantifier with trigger groups, some group has all of its spec functions declared.
func (fc *FnCtx) axiomTriggerable(e *SExpr) bool {
	if e == nil || (e.Op != "forall" && e.Op != "exists") || len(e.Trigs) == 0 {
		return true
	}
	var calls func(x *SExpr, out map[string]bool)
	calls = func(x *SExpr, out map[string]bool) {
		if x == nil {
			return
		}
		if x.Op == "call" {
			if _, isSF := fc.g.specs.SpecFuns[x.Name]; isSF {
				out[x.Name] = true
			}
		}
		for _, a := range x.Args {
			calls(a, out)
		}
	}
	for _, g := range e.Trigs {
		fs := map[string]bool{}
		for _, t := range g {
			calls(t, fs)
		}
		ok := true
		for f := range fs {
			if _, d := fc.declared["sf!"+f]; !d {
				ok = false
			}
		}
		if ok {
			return true
		}
	}
	return false
}

func (fc *FnCtx) axiomRelevant(e *SExpr) bool {
	if e == nil {
		return false
	}
	switch e.Op {
	case "call":
		if _, ok := fc.declared["sf!"+e.Name]; ok {
			return true
		}
	case "ident":
		for n := range fc.declared {
			if strings.HasPrefix(n, "GV!") && (strings.HasSuffix(n, "."+e.Name+"!tag") || strings.HasSuffix(n, "."+e.Name)) {
				return true
			}
		}
	case "sel":
		for n := range fc.declared {
			if strings.HasPrefix(n, "GV!") && (strings.HasSuffix(n, "."+e.Name+"!tag") || strings.HasSuffix(n, "."+e.Name)) {
				return true
			}
		}
	}
	for _, a := range e.Args {
		if fc.axiomRelevant(a) {
			return true
		}
	}
	return false
}

// ---------------------------------------------------------------------------

func (fc *FnCtx) buildQuery(o *Oblig) string {
	var sb strings.Builder
	sb.WriteString(fc.prelude())
	for _, d := range fc.decls {
		if d != "" {
			sb.WriteString(d)
			sb.WriteString("\n")
		}
	}
	for _, d := range fc.funDefs {
		if strings.HasPrefix(d, "(define-fun-rec ") && !o.Cover {
			// a recursive definition invites the solver to unfold it without end; an obligation whose goal does not
			// mention the function gets only its signature (weaker assumptions, still sound)
			rest := d[len("(define-fun-rec "):]
			name := rest[:strings.Index(rest, " ")]
			if !strings.Contains(o.goal, name) {
				if sig, ok := recSignature(d); ok {
					sb.WriteString(sig)
					sb.WriteString("\n")
					continue
				}
			}
		}
		sb.WriteString(d)
		sb.WriteString("\n")
	}
	for _, d := range fc.defs {
		sb.WriteString("(assert ")
		sb.WriteString(d)
		sb.WriteString(")\n")
	}
	if !o.Cover {
		for _, d := range fc.defsQ {
			sb.WriteString("(assert ")
			sb.WriteString(d)
			sb.WriteString(")\n")
		}
	}
	for _, a := range fc.assumes {
		if o.block == nil || a.block == o.block && a.seq < o.seq || fc.anc[o.block][a.block] {
			sb.WriteString("(assert ")
			sb.WriteString(a.f)
			sb.WriteString(")\n")
		}
	}
	if o.Cover {
		sb.WriteString("(assert " + o.goal + ")\n")
	} else {
		sb.WriteString("(assert (not " + o.goal + "))\n")
	}
	sb.WriteString("(check-sat)\n(get-model)\n")
	return sb.String()
}

// coreQuery: the obligation's query with every contract-derived assumption named, for unsat-core extraction.
func (fc *FnCtx) coreQuery(o *Oblig) (string, map[string]*Assume) {
	q := fc.buildQuery(o)
	names := map[string]*Assume{}
	byF := map[string]*Assume{}
	for i := range fc.assumes {
		a := &fc.assumes[i]
		if a.cl != nil {
			byF["(assert "+a.f+")"] = a
		}
	}
	lines := strings.Split(q, "\n")
	n := 0
	for i, l := range lines {
		if a, ok := byF[l]; ok {
			n++
			nm := fmt.Sprintf("dep!%d", n)
			names[nm] = a
			lines[i] = "(assert (! " + a.f + " :named " + nm + "))"
		}
	}
	q = strings.Join(lines, "\n")
	q = strings.Replace(q, "(check-sat)\n(get-model)\n", "(check-sat)\n(get-unsat-core)\n", 1)
	return "(set-option :produce-unsat-cores true)\n(set-option :smt.core.minimize true)\n" + q, names
}

func (g *Gen) discharge(fcs []*FnCtx, filter func(*Oblig) bool) {
	var wg sync.WaitGroup
	for _, fc := range fcs {
		for _, o := range fc.obligs {
			if filter != nil && !filter(o) {
				continue
			}
			if o.Lazy {
				continue
			}
			fc, o := fc, o
			wg.Add(1)
			go func() {
				defer wg.Done()
				o.Query = fc.buildQuery(o)
				if o.QFOnly {
					r := runPortfolio(o.Name, stripQuantified(o.Query), 5, g.seed)
					o.Result = r
					switch r.Verdict {
					case "sat":
						o.Status = "cover-ok-qf"
					case "unsat":
						o.Status = "cover-vacuous"
						if o.Before != nil {
							// was the call reachable at all? (a path that is dead under the caller's own assumptions is fine)
							bq := stripQuantified(fc.buildQuery(o.Before))
							rb := runPortfolio(o.Before.Name, bq, 5, g.seed)
							o.Before.Result = rb
							if rb.Verdict == "sat" {
								o.Before.Status = "cover-ok-qf"
							} else {
								o.Before.Status = "cover-dead-path"
								o.Status = "cover-dead-path"
							}
						}
					default:
						o.Status = "cover-undecided"
					}
					return
				}
				to := g.timeoutS
				if o.Cover && to > 3 {
					to = 3 // a cover that needs longer falls back to its quantifier-free part
				}
				if !o.Cover && to > 15 {
					// first attempt with a third of the budget; what times out is restarted below with other seeds
					// and the full budget (instances are usually either quick or hopeless for a given seed)
					to = to / 3
				}
				r := runPortfolio(o.Name, o.Query, to, g.seed)
				to = g.timeoutS
				o.Result = r
				switch {
				case o.Cover:
					switch r.Verdict {
					case "sat":
						o.Status = "cover-ok"
					case "unsat":
						o.Status = "cover-vacuous"
					default:
						// quantified assumptions make satisfiability undecidable in practice: fall back to the
						// quantifier-free part (catches ground contradictions; reported as a weaker cover)
						var qf []string
						for _, l := range strings.Split(o.Query, "\n") {
							if strings.HasPrefix(l, "(assert") && (strings.Contains(l, "(forall ") || strings.Contains(l, "(exists ")) {
								continue
							}
							qf = append(qf, l)
						}
						qto := to
						if qto > 6 {
							qto = 6 // a vacuity check is not worth more; "cover-undecided" is reported as such
						}
						if to/3 > qto {
							qto = to / 3 // thorough tier: large functions (writeDicts) need ~25 s for their ground part
						}
						r2 := runPortfolio(o.Name+"/qf", strings.Join(qf, "\n"), qto, g.seed)
						switch r2.Verdict {
						case "sat":
							o.Status = "cover-ok-qf"
						case "unsat":
							o.Status = "cover-vacuous"
							o.Result = r2
						default:
							o.Status = "cover-undecided"
						}
					}
				case r.Verdict == "unsat":
					o.Status = "discharged"
				case r.Verdict == "sat":
					o.Status = "failed"
				default:
					o.Status = "undecided"
				}
			}()
		}
	}
	wg.Wait()
	// Second chance for proof obligations on which some solver ran out of time (as opposed to giving up at once):
	// they are re-run, a few at a time, with three times the budget and another seed. A proof found now is a proof;
	// this only keeps slow-but-provable obligations from being reported when the machine is loaded.
	var again []*Oblig
	byO := map[*Oblig]*FnCtx{}
	for _, fc := range fcs {
		for _, o := range fc.obligs {
			if (filter != nil && !filter(o)) || o.Cover || o.Status != "undecided" || o.Result == nil {
				continue
			}
			timedOut := false
			for _, v := range o.Result.All {
				if v == "timeout" {
					timedOut = true
				}
			}
			if timedOut && !noRetryFlag && !noRetryNames[o.Name] {
				again = append(again, o)
				byO[o] = fc
			}
		}
	}
	sem := make(chan struct{}, 2)
	for _, o := range again {
		o := o
		wg.Add(1)
		sem <- struct{}{}
		go func() {
			defer wg.Done()
			defer func() { <-sem }()
			// restarts with other random seeds in parallel (the usual remedy for instances that are easy most of the
			// time), one of them with three times the budget
			type att struct {
				seed, to int
			}
			atts := []att{{g.seed + 7, 3 * g.timeoutS}, {g.seed + 101, g.timeoutS}, {g.seed + 1009, g.timeoutS}, {g.seed + 5003, 2 * g.timeoutS}}
			res := make(chan *SolverResult, len(atts))
			for k, a := range atts {
				k, a := k, a
				go func() { res <- runPortfolio(fmt.Sprintf("%s/retry%d", o.Name, k), o.Query, a.to, a.seed) }()
			}
			for range atts {
				r := <-res
				if r.Verdict == "unsat" {
					o.Result = r
					o.Status = "discharged"
					o.Retried = true
					break
				} else if r.Verdict == "sat" {
					o.Result = r
					o.Status = "failed"
					break
				}
			}
		}()
	}
	wg.Wait()
}

var _ = types.Typ

// verifyRelational: two runs of the same function (left, right) in one context, loops in lock-step.
// Relational clauses relate the runs through L(e), R(e) and same(e).
func (g *Gen) verifyRelational(fn *ssa.Function, sp *FuncSpec) *FnCtx {
	fc := g.newFnCtx(fn, sp)
	fc.relMode = true
	fc.thin = true
	fc.computeAnc(fn)
	fc.computeSiteOrdinals(fn)
	fc.curBlock = fn.Blocks[0]
	entry := fc.baseState()
	fc.entry = entry
	mk := func(tag string) *Frame {
		fr := fc.newFrame(fn, nil)
		fr.isTop = true
		fr.relTag = tag
		fr.params = map[string]Val{}
		fr.relSites = map[string]*relPoint{}
		names := sp.paramNames(fn, fn.Signature, false)
		for i, p := range fn.Params {
			v := fc.freshVal(p.Type(), tag+"!p!"+p.Name())
			fr.vals[p] = v
			fc.define(fc.typingFacts(entry, v))
			if i < len(names) {
				fr.params[names[i]] = v
			}
			fr.params[p.Name()] = v
		}
		if fn.Signature.Recv() != nil && len(fn.Params) > 0 && kindOf(fn.Params[0].Type()) == KRef {
			fc.define(sNot(sEq(fr.vals[fn.Params[0]].S, "0")))
		}
		return fr
	}
	frL, frR := mk("L"), mk("R")
	fc.top = frL
	relEnv := func(l, r *Env) *Env {
		return &Env{fc: fc, names: map[string]Val{}, state: l.state, old: entry, pkg: g.pkg.Pkg, errs: &fc.errs, relL: l, relR: r}
	}
	// unary preconditions of both runs, relational preconditions
	envL, envR := frL.specEnv(entry, nil, nil), frR.specEnv(entry, nil, nil)
	for _, c := range sp.Requires {
		if fc.modeOK(c) {
			fc.assume(envL.bool(c.Expr), "precondition (left run)")
			fc.assume(envR.bool(c.Expr), "precondition (right run)")
		}
	}
	for _, c := range sp.RelRequires {
		fc.assume(relEnv(envL, envR).bool(c.Expr), "relational precondition "+c.Text)
	}
	frL.tagStr = "L!"
	frL.run(entry, "true")
	fc.relLeft = frL
	fc.callOrd = map[string]int{}
	frR.tagStr = "R!"
	frR.run(entry, "true")

	pointEnv := func(fr *Frame, p *relPoint, head *ssa.BasicBlock) *Env {
		e := fr.specEnv(p.st, head, p.vals)
		if p.args != nil {
			for k, v := range p.args {
				e.names[k] = v
			}
			e.localsFirst = true
			blk, in := p.block, p.in
			e.lookup = func(n string, s *State) (Val, bool) { return fr.lookupLocalAt(n, s, blk, in) }
		}
		return e
	}
	mergeLatch := func(fr *Frame, li *loopInfo) *relPoint {
		if len(li.relLatch) == 0 {
			return nil
		}
		var sts []*State
		var conds []string
		for _, p := range li.relLatch {
			sts = append(sts, p.st)
			conds = append(conds, p.cond)
		}
		m := &relPoint{vals: map[*ssa.Phi]Val{}, st: fc.mergeStates(sts, conds), cond: sOr(conds...)}
		for ph := range li.relLatch[0].vals {
			var vs []Val
			for _, p := range li.relLatch {
				vs = append(vs, p.vals[ph])
			}
			m.vals[ph] = fr.mergeVals(ph.Type(), vs, conds)
		}
		return m
	}
	for i, liL := range frL.loops {
		if i >= len(frR.loops) {
			break
		}
		liR := frR.loops[i]
		var invs []*Clause
		for _, c := range sp.RelInvs {
			if c.Loop == liL.ord {
				invs = append(invs, c)
			}
		}
		if len(invs) == 0 || liL.relHead == nil || liR.relHead == nil {
			continue
		}
		latL, latR := mergeLatch(frL, liL), mergeLatch(frR, liR)
		for _, c := range invs {
			if liL.relEntry != nil && liR.relEntry != nil {
				f := relEnv(pointEnv(frL, liL.relEntry, liL.head), pointEnv(frR, liR.relEntry, liR.head)).bool(c.Expr)
				fc.addObligAt(&Oblig{Name: fmt.Sprintf("%s/rel-inv-entry#L%d.%d", sp.Name, liL.ord, c.Ord), Kind: "rel-inv-entry", Tags: c.Tags,
					goal: sImp(sAnd(liL.relEntry.cond, liR.relEntry.cond), f), Text: c.Text, Spec: c}, nil, 1<<30)
			}
			if latL != nil && latR != nil {
				f := relEnv(pointEnv(frL, latL, liL.head), pointEnv(frR, latR, liR.head)).bool(c.Expr)
				fc.addObligAt(&Oblig{Name: fmt.Sprintf("%s/rel-inv-preserve#L%d.%d", sp.Name, liL.ord, c.Ord), Kind: "rel-inv-preserve", Tags: c.Tags,
					goal: sImp(sAnd(latL.cond, latR.cond), f), Text: c.Text, Spec: c}, nil, 1<<30)
			}
		}
		if latL != nil && latR != nil {
			// lock-step: from related loop heads, the two runs either both come back to the head or both leave
			fc.addObligAt(&Oblig{Name: fmt.Sprintf("%s/rel-lockstep#L%d", sp.Name, liL.ord), Kind: "rel-lockstep", Tags: sp.allTags(),
				goal: sImp(sAnd(liL.relHead.cond, liR.relHead.cond), sEq(latL.cond, latR.cond)), Text: "both runs take the same number of iterations"}, nil, 1<<30)
		}
	}
	for _, c := range sp.RelAsserts {
		pl, pr := frL.relSites[c.Site], frR.relSites[c.Site]
		if pl == nil || pr == nil {
			fc.errs = append(fc.errs, fmt.Sprintf("%s: relational assertion site %s does not bind in both runs", sp.Name, c.Site))
			continue
		}
		f := relEnv(pointEnv(frL, pl, nil), pointEnv(frR, pr, nil)).bool(c.Expr)
		fc.addObligAt(&Oblig{Name: fmt.Sprintf("%s/rel-assert#%d@%s", sp.Name, c.Ord, c.Site), Kind: "rel-assert", Tags: c.Tags,
			goal: sImp(sAnd(pl.cond, pr.cond), f), Text: c.Text, Spec: c}, nil, 1<<30)
	}
	if len(fc.obligs) > 0 {
		fc.addObligAt(&Oblig{Name: sp.Name + "/rel-cover", Kind: "cover", Cover: true, goal: "true", Tags: sp.allTags(), Text: "relational assumptions satisfiable"}, nil, 1<<30)
	}
	fc.applyAxioms()
	return fc
}

// recSignature turns "(define-fun-rec f ((a S)...) R body)" into "(declare-fun f (S...) R)".
func recSignature(d string) (string, bool) {
	rest := d[len("(define-fun-rec "):]
	i := strings.Index(rest, " ")
	if i < 0 {
		return "", false
	}
	name := rest[:i]
	rest = strings.TrimSpace(rest[i:])
	// parameter list: balanced parentheses
	if !strings.HasPrefix(rest, "(") {
		return "", false
	}
	depth, j := 0, 0
	for j = 0; j < len(rest); j++ {
		if rest[j] == '(' {
			depth++
		} else if rest[j] == ')' {
			depth--
			if depth == 0 {
				break
			}
		}
	}
	params := rest[1:j]
	after := strings.TrimSpace(rest[j+1:])
	// result sort: an atom or a balanced s-expression
	var ret string
	if strings.HasPrefix(after, "(") {
		depth = 0
		k := 0
		for k = 0; k < len(after); k++ {
			if after[k] == '(' {
				depth++
			} else if after[k] == ')' {
				depth--
				if depth == 0 {
					break
				}
			}
		}
		ret = after[:k+1]
	} else {
		ret = after[:strings.IndexAny(after, " )")]
	}
	// sorts of the parameters: each "(name sort)" at depth 1
	var sorts []string
	depth = 0
	start := -1
	for k := 0; k < len(params); k++ {
		switch params[k] {
		case '(':
			if depth == 0 {
				start = k
			}
			depth++
		case ')':
			depth--
			if depth == 0 && start >= 0 {
				inner := strings.TrimSpace(params[start+1 : k])
				sp := strings.Index(inner, " ")
				if sp < 0 {
					return "", false
				}
				sorts = append(sorts, strings.TrimSpace(inner[sp:]))
			}
		}
	}
	return "(declare-fun " + name + " (" + strings.Join(sorts, " ") + ") " + ret + ")", true
}

// stripQuantified drops the quantified assertions of a query.
func stripQuantified(q string) string {
	var qf []string
	for _, l := range strings.Split(q, "\n") {
		if strings.HasPrefix(l, "(assert") && (strings.Contains(l, "(forall ") || strings.Contains(l, "(exists ")) {
			continue
		}
		qf = append(qf, l)
	}
	return strings.Join(qf, "\n")
}
