package main

// Translation of one activation's SSA blocks.

import (
	"os"
	"sort"
	"fmt"
	"go/constant"
	"go/token"
	"go/types"
	"strings"

	"golang.org/x/tools/go/ssa"
)

func (fc *FnCtx) newFrame(fn *ssa.Function, parent *Frame) *Frame {
	fr := &Frame{fc: fc, fn: fn, parent: parent, vals: map[ssa.Value]Val{}, addrs: map[ssa.Value]*Addr{},
		reach: map[*ssa.BasicBlock]string{}, out: map[*ssa.BasicBlock]*State{}, edge: map[[2]int]string{},
		loopOf: map[*ssa.BasicBlock]*loopInfo{}, failed: map[int]string{}}
	if parent != nil {
		fr.depth = parent.depth + 1
	}
	fr.loops = findLoops(fn)
	for _, l := range fr.loops {
		fr.loopOf[l.head] = l
	}
	return fr
}

func (fr *Frame) tag() string {
	if fr.isTop {
		return ""
	}
	return fmt.Sprintf("i%d!", fr.fc.fresh)
}

// val returns the symbolic value of an SSA value.
func (fr *Frame) val(v ssa.Value, st *State) Val {
	fc := fr.fc
	if x, ok := fr.vals[v]; ok {
		return x
	}
	switch v := v.(type) {
	case *ssa.Const:
		return fc.constVal(v)
	case *ssa.Global:
		// address of a global: only meaningful through addrOf
		fc.declareConst("gaddr!"+v.String(), "Int")
		return Val{T: v.Type(), S: sym("gaddr!" + v.String())}
	case *ssa.Function:
		fc.declareConst("fn!"+v.String(), "Int")
		fc.define(sx(">", sym("fn!"+v.String()), "0"))
		return Val{T: v.Type(), S: sym("fn!" + v.String())}
	case *ssa.Builtin:
		return Val{T: v.Type(), S: "0"}
	case *ssa.FreeVar:
		for i, f := range fr.fn.FreeVars {
			if f == v && i < len(fr.bindings) {
				return fr.bindings[i]
			}
		}
	}
	// not yet defined (e.g. value from a block processed later: should not happen in RPO)
	x := fc.freshVal(v.Type(), "undef!"+v.Name())
	fr.vals[v] = x
	return x
}

func (fc *FnCtx) constVal(c *ssa.Const) Val {
	t := c.Type()
	if c.Value == nil {
		return fc.zeroVal(t)
	}
	switch kindOf(t) {
	case KBool:
		return Val{T: t, S: fmt.Sprint(constant.BoolVal(c.Value))}
	case KInt:
		b, ok := constToBig(c.Value)
		if !ok {
			return fc.freshVal(t, "const")
		}
		return Val{T: t, S: fc.m.intConst(b, t)}
	case KStr:
		return Val{T: t, S: fc.strLit(constant.StringVal(c.Value))}
	case KFloat:
		n := "float!" + strings.NewReplacer(" ", "", "/", "d", "+", "p", "-", "m").Replace(c.Value.ExactString())
		fc.declareConst(n, "Int")
		return Val{T: t, S: sym(n)}
	}
	return fc.freshVal(t, "const")
}

// addrOf gives the structured address for a pointer-valued SSA value.
func (fr *Frame) addrOf(v ssa.Value, st *State) *Addr {
	if a, ok := fr.addrs[v]; ok {
		return a
	}
	fc := fr.fc
	switch x := v.(type) {
	case *ssa.Global:
		if o, ok := x.Object().(*types.Var); ok {
			name := "GV!" + shortPkg(o.Pkg().Path()) + "." + o.Name()
			return &Addr{Kind: aGlobal, Name: name}
		}
	case *ssa.FreeVar:
		for i, f := range fr.fn.FreeVars {
			if f == x && i < len(fr.bindAddr) && fr.bindAddr[i] != nil {
				return fr.bindAddr[i]
			}
		}
	}
	// generic pointer: cell (or struct ref)
	pv := fr.val(v, st)
	_ = fc
	return &Addr{Kind: aCell, Obj: pv.S}
}

func pointee(t types.Type) types.Type {
	if p, ok := t.Underlying().(*types.Pointer); ok {
		return p.Elem()
	}
	return nil
}

// ---------------------------------------------------------------------------

func (fr *Frame) blockName(b *ssa.BasicBlock) string {
	return fmt.Sprintf("%sb%d", fr.tagStr, b.Index)
}

func (fr *Frame) guardOf(b *ssa.BasicBlock) string { return fr.reach[b] }

// run translates the frame. entry: state and guard at entry.
func (fr *Frame) run(entry *State, guard string) {
	fc := fr.fc
	fr.entrySt = entry
	fr.entryG = guard
	fr.tagStr = ""
	if !fr.isTop {
		fr.tagStr = fc.freshName("in") + "!"
	}
	order := rpo(fr.fn)
	for _, b := range order {
		if fr.isTop {
			fc.curBlock = b
		}
		var inSt *State
		var reach string
		var preds []*ssa.BasicBlock
		var conds []string
		var sts []*State
		if b == fr.fn.Blocks[0] {
			inSt = entry
			reach = guard
		} else {
			for _, p := range b.Preds {
				if isBackEdge(p, b) {
					continue
				}
				ec, ok := fr.edge[[2]int{p.Index, b.Index}]
				if !ok {
					continue // unreachable predecessor
				}
				preds = append(preds, p)
				conds = append(conds, ec)
				sts = append(sts, fr.out[p])
			}
			if len(preds) == 0 {
				continue // unreachable block
			}
			reach = sOr(conds...)
			inSt = fc.mergeStates(sts, conds)
		}
		// name the reach condition
		rn := fc.freshName("reach!" + fr.blockName(b))
		fc.declareConst(rn, "Bool")
		fc.define(sEq(sym(rn), reach))
		fr.reach[b] = sym(rn)

		st := inSt
		li := fr.loopOf[b]
		// phis
		var phis []*ssa.Phi
		for _, in := range b.Instrs {
			if p, ok := in.(*ssa.Phi); ok {
				phis = append(phis, p)
			} else {
				break
			}
		}
		if li != nil {
			st = fr.loopHead(li, b, phis, preds, conds, st)
		} else {
			for _, p := range phis {
				fr.vals[p] = fr.mergePhi(p, b, preds, conds)
			}
		}
		for _, in := range b.Instrs {
			if _, ok := in.(*ssa.Phi); ok {
				continue
			}
			st = fr.instr(in, b, st)
		}
		fr.out[b] = st
	}
}

func (fr *Frame) phiEdgeVal(p *ssa.Phi, b, pred *ssa.BasicBlock) Val {
	for i, pp := range b.Preds {
		if pp == pred {
			return fr.val(p.Edges[i], nil)
		}
	}
	panic("phi edge")
}

func (fr *Frame) mergeVals(t types.Type, vs []Val, conds []string) Val {
	if len(vs) == 1 {
		return vs[0]
	}
	if vs[0].Sub != nil || kindOf(t) == KSlice || kindOf(t) == KIface || kindOf(t) == KStruct || kindOf(t) == KTuple {
		out := Val{T: t}
		for i := range vs[0].Sub {
			var sub []Val
			for _, v := range vs {
				sub = append(sub, v.Sub[i])
			}
			out.Sub = append(out.Sub, fr.mergeVals(vs[0].Sub[i].T, sub, conds))
		}
		return out
	}
	s := vs[len(vs)-1].S
	for i := len(vs) - 2; i >= 0; i-- {
		s = sIte(conds[i], vs[i].S, s)
	}
	return Val{T: t, S: s}
}

func (fr *Frame) mergePhi(p *ssa.Phi, b *ssa.BasicBlock, preds []*ssa.BasicBlock, conds []string) Val {
	var vs []Val
	for _, pred := range preds {
		vs = append(vs, fr.phiEdgeVal(p, b, pred))
	}
	v := fr.mergeVals(p.Type(), vs, conds)
	return fr.nameVal(v, p.Name())
}

// nameVal introduces named symbols for a value's scalar leaves (keeps terms small and models readable).
func (fr *Frame) nameVal(v Val, name string) Val {
	fc := fr.fc
	if v.Sub != nil {
		out := Val{T: v.T}
		for i, s := range v.Sub {
			out.Sub = append(out.Sub, fr.nameVal(s, fmt.Sprintf("%s.%d", name, i)))
		}
		return out
	}
	if len(v.S) < 24 || v.S == "" {
		return v
	}
	n := fc.freshName(fr.tagStr + name)
	sort := fc.m.scalarSort(v.T)
	if v.T == tInt && fc.isRefTerm(v) {
		sort = "Int"
	}
	fc.declareConst(n, sort)
	fc.define(sEq(sym(n), v.S))
	return Val{T: v.T, S: sym(n), Untyped: v.Untyped}
}

func (fc *FnCtx) isRefTerm(v Val) bool { return false }

// ---------------------------------------------------------------------------
// loops

func (fr *Frame) loopModSet(li *loopInfo) (*ModSet, map[*ssa.Alloc]bool) {
	ms := newModSet()
	for b := range li.blocks {
		for _, in := range b.Instrs {
			fr.fc.g.instrMods(fr.fc, fr.fn, in, ms)
			if nx, ok := in.(*ssa.Next); ok {
				if rg, ok := nx.Iter.(*ssa.Range); ok && fr.mapRanges[rg] != nil {
					ms.Names[fr.mapRanges[rg].vis] = true
				}
			}
			// stores to local cells (variables kept in memory) and to captured variables
			if stI, ok := in.(*ssa.Store); ok {
				if ad, ok := fr.addrs[stI.Addr]; ok && ad.Kind == aLocal {
					fr.fc.storeNames(ad, pointee(stI.Addr.Type()), ms.Names)
				}
				if fv, ok := stI.Addr.(*ssa.FreeVar); ok {
					if ad := fr.addrOf(fv, nil); ad != nil && ad.Kind == aLocal {
						fr.fc.storeNames(ad, pointee(stI.Addr.Type()), ms.Names)
					}
				}
			}
			// closures called in the loop may write the local cells they capture
			if ci, ok := in.(ssa.CallInstruction); ok {
				if mc, ok := ci.Common().Value.(*ssa.MakeClosure); ok {
					fr.closureLocalMods(mc, ms, 0)
				}
			}
		}
	}
	return ms, nil
}

func (fr *Frame) loopHead(li *loopInfo, b *ssa.BasicBlock, phis []*ssa.Phi, preds []*ssa.BasicBlock, conds []string, st *State) *State {
	fc := fr.fc
	if os.Getenv("ZVC_DEBUG_LOOPS") != "" && fr.isTop {
		ms, _ := fr.loopModSet(li)
		fmt.Fprintf(os.Stderr, "loop %d of %s: all=%v pfx=%v names=%d\n", li.ord, fr.fn.Name(), ms.All, ms.Pfx, len(ms.Names))
		if ms.All {
			for bb := range li.blocks {
				for _, in := range bb.Instrs {
					one := newModSet()
					fc.g.instrMods(fc, fr.fn, in, one)
					if one.All {
						fmt.Fprintf(os.Stderr, "   ALL from: %s\n", in.String())
					}
				}
			}
		}
	}
	spec := fc.spec
	var invs []*Clause
	if fr.isTop && spec != nil {
		for _, c := range spec.Invs {
			if c.Loop == li.ord && fc.modeOK(c) {
				invs = append(invs, c)
			}
		}
		invs = append(invs, fc.globalInvs()...)
	}
	// values on entry
	entryPhi := map[*ssa.Phi]Val{}
	for _, p := range phis {
		entryPhi[p] = fr.mergePhi(p, b, preds, conds)
	}
	li.preSt = st
	li.entryPhi = entryPhi
	if fc.relMode {
		li.relEntry = &relPoint{vals: entryPhi, st: st, cond: fr.reach[b]}
	}
	// 1. invariants hold on entry
	if fr.isTop {
		env := fr.specEnv(st, b, entryPhi)
		env.loopPre = st
		env.lookupEntry = func(name string, s2 *State) (Val, bool) { return fr.lookupLocal(name, s2, b, entryPhi) }
		for _, c := range invs {
			f := env.bool(c.Expr)
			fc.addOblig(&Oblig{Name: fmt.Sprintf("%s/inv-entry#L%d.%d", spec.Name, li.ord, c.Ord), Kind: "inv-entry", Tags: c.Tags,
				goal: sImp(fr.reach[b], f), Text: c.Text, Spec: c})
		}
	}
	// 2. havoc
	ms, _ := fr.loopModSet(li)
	if fr.isTop && spec != nil {
		for _, n := range spec.LoopMods[li.ord] {
			fr.resolveModEntry(n, ms, nil, st)
		}
	}
	var nst *State
	if ms.All {
		nst = st.havocAll(fc.ghostKeep(ms))
		// local cells and local maps are immune to heap-wide havoc; those written in the loop are havocked by name
		loc := map[string]bool{}
		for n := range ms.Names {
			if fc.isLocalArr(n) {
				loc[n] = true
			}
		}
		nst = nst.havocSet(loc)
	} else {
		set := map[string]bool{}
		for n := range ms.Names {
			set[n] = true
		}
		nst = st.havocSetP(set, ms.Pfx)
	}
	for _, p := range phis {
		v := fc.freshVal(p.Type(), fr.tagStr+p.Name()+"!"+sanitize(p.Comment))
		fr.vals[p] = v
		fc.assume(sImp(fr.reach[b], fc.typingFacts(nst, v)), "typing of loop variable")
		if p.Comment == "rangeindex" && kindOf(p.Type()) == KInt {
			// compiler-generated range counter: starts at -1 and is only ever incremented by one below the length
			fc.assume(sImp(fr.reach[b], sAnd(fc.m.cmp(token.GEQ, v.S, fc.m.intConstI(-1, tInt), tInt), fc.m.cmp(token.LEQ, v.S, fc.m.intConst(pow2(62), tInt), tInt))), "range counter lies between -1 and the largest possible length")
		}
	}
	li.headSt = nst
	// 3. assume invariants
	if fr.isTop {
		env := fr.specEnv(nst, b, nil)
		env.loopPre = li.preSt
		env.lookupEntry = func(name string, s2 *State) (Val, bool) { return fr.lookupLocal(name, s2, b, entryPhi) }
		for _, c := range invs {
			f := env.bool(c.Expr)
			fc.assumeC(sImp(fr.reach[b], f), "invariant "+c.Text, c, fc.spec.Name)
		}
	}
	if fc.relMode {
		hv := map[*ssa.Phi]Val{}
		for _, p := range phis {
			hv[p] = fr.vals[p]
		}
		li.relHead = &relPoint{vals: hv, st: nst, cond: fr.reach[b]}
		// right run: the relational invariants relate its loop head to the left run's
		if fc.relLeft != nil && fr != fc.relLeft {
			for i, ll := range fc.relLeft.loops {
				if i < len(fr.loops) && fr.loops[i] == li && ll.relHead != nil {
					envL := fc.relLeft.specEnv(ll.relHead.st, ll.head, ll.relHead.vals)
					envR := fr.specEnv(nst, b, hv)
					re := &Env{fc: fc, names: map[string]Val{}, state: nst, old: fc.entry, pkg: fc.g.pkg.Pkg, errs: &fc.errs, relL: envL, relR: envR}
					for _, c := range fc.spec.RelInvs {
						if c.Loop == li.ord {
							fc.assume(sImp(sAnd(ll.relHead.cond, fr.reach[b]), re.bool(c.Expr)), "relational invariant "+c.Text)
						}
					}
				}
			}
		}
	}
	return nst
}

// globalInvs: the global invariants that apply to the function under verification (not to lemmas and harnesses).
func (fc *FnCtx) globalInvs() []*Clause {
	if fc.spec == nil || fc.spec.Lemma || fc.spec.Harness || fc.relMode {
		return nil
	}
	var out []*Clause
	for _, c := range fc.g.specs.Invariants {
		if fc.modeOK(c) {
			out = append(out, c)
		}
	}
	return out
}

// assumeGlobalInvs: after a call the global invariants hold again (every function under contract is checked to
// re-establish them; code without a contract and library code is assumed not to break them).
func (fr *Frame) assumeGlobalInvs(st *State, g string, b *ssa.BasicBlock) {
	fc := fr.fc
	if !fr.isTop {
		return
	}
	for _, c := range fc.globalInvs() {
		env := fr.specEnv(st, nil, nil)
		fc.assume(sImp(g, env.bool(c.Expr)), "global invariant "+c.Site+" after a call")
	}
}

func sanitize(s string) string {
	return strings.Map(func(r rune) rune {
		if r >= 'a' && r <= 'z' || r >= 'A' && r <= 'Z' || r >= '0' && r <= '9' || r == '_' {
			return r
		}
		return '_'
	}, s)
}

// backEdge asserts the invariants of the loop headed by h when control returns to it from b.
func (fr *Frame) backEdge(b, h *ssa.BasicBlock, cond string, st *State) {
	fc := fr.fc
	li := fr.loopOf[h]
	if li == nil || !fr.isTop || fc.spec == nil {
		return
	}
	over := map[*ssa.Phi]Val{}
	for _, in := range h.Instrs {
		if p, ok := in.(*ssa.Phi); ok {
			over[p] = fr.phiEdgeVal(p, h, b)
		} else {
			break
		}
	}
	if fc.relMode {
		li.relLatch = append(li.relLatch, &relPoint{vals: over, st: st, cond: cond})
	}
	env := fr.specEnv(st, h, over)
	env.loopPre = li.preSt
	env.lookupEntry = func(name string, s2 *State) (Val, bool) { return fr.lookupLocal(name, s2, h, li.entryPhi) }
	for _, c := range append(append([]*Clause(nil), fc.spec.Invs...), fc.globalInvs()...) {
		if (c.Kind != "global-invariant" && c.Loop != li.ord) || !fc.modeOK(c) {
			continue
		}
		f := env.bool(c.Expr)
		fc.addOblig(&Oblig{Name: fmt.Sprintf("%s/inv-preserve#L%d.%d@b%d", fc.spec.Name, li.ord, c.Ord, b.Index), Kind: "inv-preserve", Tags: c.Tags,
			goal: sImp(cond, f), Text: c.Text, Spec: c})
	}
	// step clauses: what one iteration does, as a relation between the loop-head state (prev) and the state here;
	// plain names are resolved at the end of the iteration (body locals included), phis at their incoming values
	if li.headSt != nil {
		for _, c := range fc.spec.Steps {
			if c.Loop != li.ord || !fc.modeOK(c) {
				continue
			}
			senv := fr.specEnv(st, h, over)
			senv.lookup = func(name string, s2 *State) (Val, bool) {
				// a loop-carried variable has, at the end of the iteration, the value that flows back to its phi
				// (an assignment `x = y` of an existing value leaves no trace in the block itself)
				for _, in := range h.Instrs {
					p, ok := in.(*ssa.Phi)
					if !ok {
						break
					}
					if p.Comment == name {
						if v, ok := over[p]; ok {
							return v, true
						}
					}
				}
				if v, ok := fr.lookupLocalAt(name, s2, b, nil); ok {
					return v, true
				}
				return fr.lookupLocal(name, s2, h, over)
			}
			senv.loopPre = li.preSt
			senv.lookupEntry = func(name string, s2 *State) (Val, bool) { return fr.lookupLocal(name, s2, h, li.entryPhi) }
			senv.prevSt = li.headSt
			senv.lookupPrev = func(name string, s2 *State) (Val, bool) {
				if v, ok := fr.lookupLocal(name, s2, h, nil); ok {
					return v, true
				}
				// a local of the loop body has one value per iteration
				return fr.lookupLocalAt(name, s2, b, nil)
			}
			f := senv.bool(c.Expr)
			fc.addOblig(&Oblig{Name: fmt.Sprintf("%s/step#L%d.%d@b%d", fc.spec.Name, li.ord, c.Ord, b.Index), Kind: "step", Tags: c.Tags,
				goal: sImp(cond, f), Text: c.Text, Spec: c})
		}
	}
}

// ---------------------------------------------------------------------------
// spec environment for the top frame

func (fr *Frame) specEnv(st *State, at *ssa.BasicBlock, phiOver map[*ssa.Phi]Val) *Env {
	fc := fr.fc
	env := &Env{fc: fc, names: map[string]Val{}, state: st, old: fr.entrySt, pkg: fc.g.pkg.Pkg, errs: &fc.errs}
	for k, v := range fr.params {
		env.names[k] = v
	}
	env.lookup = func(name string, st *State) (Val, bool) {
		return fr.lookupLocal(name, st, at, phiOver)
	}
	env.localsFirst = at != nil
	return env
}

// lookupLocal resolves a source-level local variable name at the head of block at.
func (fr *Frame) lookupFreeVar(name string, st *State) (Val, bool) {
	for i, fv := range fr.fn.FreeVars {
		if fv.Name() == name && i < len(fr.bindAddr) && fr.bindAddr[i] != nil {
			return fr.fc.load(st, fr.bindAddr[i], pointee(fv.Type())), true
		}
	}
	return Val{}, false
}

func (fr *Frame) lookupLocal(name string, st *State, at *ssa.BasicBlock, phiOver map[*ssa.Phi]Val) (Val, bool) {
	if v, ok := fr.lookupFreeVar(name, st); ok {
		return v, true
	}
	if at == nil {
		return Val{}, false
	}
	fc := fr.fc
	if name == "$visited" || name == "$dom0" {
		// ghost sets of the innermost enclosing range-over-map loop
		var best *mapRange
		var bestB *ssa.BasicBlock
		for _, b := range fr.fn.Blocks {
			if !(b == at || b.Dominates(at)) {
				continue
			}
			li := fr.loopOf[b]
			if li == nil || li.head != b || !(li.blocks[at] || b == at) {
				continue
			}
			for _, in := range b.Instrs {
				if nx, ok := in.(*ssa.Next); ok {
					if rg, ok := nx.Iter.(*ssa.Range); ok && fr.mapRanges[rg] != nil && (bestB == nil || bestB.Dominates(b)) {
						best, bestB = fr.mapRanges[rg], b
					}
				}
			}
		}
		if best == nil {
			return Val{}, false
		}
		if name == "$dom0" {
			return Val{T: types.NewArray(tBool, 0), S: best.dom0}, true
		}
		return Val{T: types.NewArray(tBool, 0), S: st.get(best.vis)}, true
	}
	if name == "$k" || name == "$k2" {
		// iterations completed by the innermost ($k) / second innermost ($k2) enclosing slice-range loop
		var cands []*ssa.Phi
		for _, b := range fr.fn.Blocks {
			if !(b == at || b.Dominates(at)) {
				continue
			}
			for _, in := range b.Instrs {
				p, ok := in.(*ssa.Phi)
				if !ok {
					break
				}
				if p.Comment == "rangeindex" {
					// the block must still be inside that loop
					if li := fr.loopOf[b]; li != nil && (li.blocks[at] || b == at) {
						cands = append(cands, p)
					}
				}
			}
		}
		// innermost first: a header that is dominated by another candidate's header lies inside it
		sort.Slice(cands, func(i, j int) bool { return cands[j].Block().Dominates(cands[i].Block()) && cands[i].Block() != cands[j].Block() })
		idx := 0
		if name == "$k2" {
			idx = 1
		}
		if idx < len(cands) {
			bestP := cands[idx]
			v := fr.vals[bestP]
			if o, ok := phiOver[bestP]; ok {
				v = o
			}
			one := fc.m.intConstI(1, tInt)
			if fc.m.mode == ModeBV {
				return Val{T: tInt, S: sx("bvadd", v.S, one)}, true
			}
			return Val{T: tInt, S: sx("+", v.S, one)}, true
		}
		return Val{}, false
	}
	// phi in this block
	for _, in := range at.Instrs {
		if p, ok := in.(*ssa.Phi); ok && p.Comment == name {
			if o, ok := phiOver[p]; ok {
				return o, true
			}
			return fr.vals[p], true
		}
	}
	// allocs (variables living in memory)
	for _, b := range fr.fn.Blocks {
		for _, in := range b.Instrs {
			if a, ok := in.(*ssa.Alloc); ok && a.Comment == name {
				if ad, ok := fr.addrs[a]; ok {
					return fc.load(st, ad, pointee(a.Type())), true
				}
			}
		}
	}
	// closest dominating definition: DebugRef'd values and phis named after the variable
	var best ssa.Value
	var bestB *ssa.BasicBlock
	better := func(b *ssa.BasicBlock) bool { return bestB == nil || bestB == b || bestB.Dominates(b) }
	for _, b := range fr.fn.Blocks {
		if !(b == at || b.Dominates(at)) {
			continue
		}
		for _, in := range b.Instrs {
			if p, ok := in.(*ssa.Phi); ok {
				if p.Comment == name && better(b) {
					best, bestB = p, b
				}
				continue
			}
			if b == at {
				break // only the phis of the block itself count at its head
			}
			d, ok := in.(*ssa.DebugRef)
			if !ok || d.IsAddr {
				continue
			}
			o := d.Object()
			if o == nil || o.Name() != name {
				continue
			}
			if _, isVar := o.(*types.Var); !isVar || isPkgLevel(o) {
				continue
			}
			if better(b) {
				best, bestB = d.X, b
			}
		}
	}
	if best != nil {
		if p, ok := best.(*ssa.Phi); ok {
			if o, ok := phiOver[p]; ok {
				return o, true
			}
		}
		if v, ok := fr.vals[best]; ok {
			return v, true
		}
		if _, ok := best.(*ssa.Const); ok {
			return fr.val(best, st), true
		}
		if _, ok := best.(*ssa.Parameter); ok {
			return fr.val(best, st), true
		}
	}
	return Val{}, false
}

// ---------------------------------------------------------------------------
// instructions

func (fr *Frame) unsupported(in ssa.Instruction, why string) {
	fc := fr.fc
	if !fc.thin && fr.isTop {
		fc.errs = append(fc.errs, fmt.Sprintf("%s: unsupported in full mode: %s (%s)", fnName(fr.fn), in.String(), why))
	} else {
		fc.note("abstracted instruction in " + fnName(fr.fn) + ": " + why)
	}
}

func (fr *Frame) safety(kind, cond string, b *ssa.BasicBlock, in ssa.Instruction) {
	fc := fr.fc
	if cond == "true" {
		return
	}
	if !fc.thin && fc.spec != nil && !fc.spec.MayPanic {
		fc.callOrd["safety:"+kind]++
		fc.addOblig(&Oblig{Name: fmt.Sprintf("%s/safety:%s#%d", fc.spec.Name, kind, fc.callOrd["safety:"+kind]), Kind: "safety:" + kind,
			Tags: fc.spec.Tags, goal: sImp(fr.reach[b], cond), Text: strings.TrimSpace(in.String())})
	}
	fc.assume(sImp(fr.reach[b], cond), "execution continued past "+kind+" check")
}

func (fr *Frame) instr(in ssa.Instruction, b *ssa.BasicBlock, st *State) *State {
	fc := fr.fc
	m := fc.m
	g := fr.reach[b]
	switch x := in.(type) {
	case *ssa.DebugRef:
		return st
	case *ssa.Alloc:
		pt := pointee(x.Type())
		if fr.isLocalCell(x) {
			name := fmt.Sprintf("L!%s%s!%d", fr.tagStr, sanitize(x.Comment), fc.fresh)
			fc.fresh++
			a := &Addr{Kind: aLocal, Name: name}
			fr.addrs[x] = a
			fr.vals[x] = Val{T: x.Type(), S: "0"}
			return fc.storeVal(st, a, pt, fc.zeroVal(pt))
		}
		ref, st2 := fc.alloc(st, fr.tagStr+x.Name()+"!new")
		st = st2
		fr.vals[x] = Val{T: x.Type(), S: ref}
		switch kindOf(pt) {
		case KStruct:
			st = fc.zeroStruct(st, ref, pt)
		case KArray:
			st = fc.zeroRow(st, ref, pt.Underlying().(*types.Array).Elem())
		default:
			st = fc.storeVal(st, &Addr{Kind: aCell, Obj: ref}, pt, fc.zeroVal(pt))
		}
		return st
	case *ssa.FieldAddr:
		base := fr.val(x.X, st)
		stT := pointee(x.X.Type())
		fr.safety("nil", sNot(sEq(base.S, "0")), b, in)
		a := &Addr{Kind: aField, Obj: base.S, ST: stT, F: x.Field}
		fr.addrs[x] = a
		ft := pointee(x.Type())
		switch kindOf(ft) {
		case KStruct, KArray:
			fr.vals[x] = Val{T: x.Type(), S: fc.embRef(stT, x.Field, base.S)}
		default:
			n := "fptr!" + structName(stT) + "." + stT.Underlying().(*types.Struct).Field(x.Field).Name()
			fc.declareFun(n, "(Int) Int")
			fr.vals[x] = Val{T: x.Type(), S: sx(sym(n), base.S)}
		}
		return st
	case *ssa.Field:
		base := fr.val(x.X, st)
		if base.Sub != nil {
			fr.vals[x] = base.Sub[x.Field]
		} else {
			fr.vals[x] = fc.freshVal(x.Type(), x.Name())
		}
		return st
	case *ssa.IndexAddr:
		base := fr.val(x.X, st)
		idx := fr.idxVal(x.Index, st)
		var a *Addr
		var et types.Type
		switch xt := x.X.Type().Underlying().(type) {
		case *types.Slice:
			et = xt.Elem()
			fr.safety("index", sAnd(m.cmp(token.LEQ, m.intConstI(0, tInt), idx, tInt), m.cmp(token.LSS, idx, base.Sub[2].S, tInt)), b, in)
			a = &Addr{Kind: aElem, Obj: base.Sub[0].S, Idx: fr.idxAdd(base.Sub[1].S, idx)}
		case *types.Pointer:
			arr := xt.Elem().Underlying().(*types.Array)
			et = arr.Elem()
			fr.safety("index", sAnd(m.cmp(token.LEQ, m.intConstI(0, tInt), idx, tInt), m.cmp(token.LSS, idx, m.intConstI(arr.Len(), tInt), tInt)), b, in)
			a = &Addr{Kind: aElem, Obj: base.S, Idx: idx}
		default:
			fr.unsupported(in, "indexaddr")
			fr.vals[x] = fc.freshVal(x.Type(), x.Name())
			return st
		}
		a.ET = et
		fr.addrs[x] = a
		switch kindOf(et) {
		case KStruct, KArray:
			fr.vals[x] = Val{T: x.Type(), S: fc.elemRef(et, a.Obj, a.Idx)}
		default:
			n := "eptr!" + typeKey(et)
			fc.declareFun(n, "(Int "+m.idxSort()+") Int")
			fr.vals[x] = Val{T: x.Type(), S: sx(sym(n), a.Obj, a.Idx)}
		}
		return st
	case *ssa.Index:
		// array value or string index
		base := fr.val(x.X, st)
		idx := fr.idxVal(x.Index, st)
		switch kindOf(x.X.Type()) {
		case KStr:
			fc.declareFun("strbyte", "(Str "+m.idxSort()+") "+m.intSort(tByte))
			fr.safety("index", sAnd(m.cmp(token.LEQ, m.intConstI(0, tInt), idx, tInt), m.cmp(token.LSS, idx, sx("strlen", base.S), tInt)), b, in)
			v := Val{T: x.Type(), S: sx("strbyte", base.S, idx)}
			fc.define(m.inRange(v.S, tByte))
			fr.vals[x] = v
		default:
			fr.unsupported(in, "index of array value")
			fr.vals[x] = fc.freshVal(x.Type(), x.Name())
		}
		return st
	case *ssa.UnOp:
		return fr.unop(x, b, st)
	case *ssa.BinOp:
		fr.vals[x] = fr.nameVal(fr.binop(x, b, st), x.Name())
		return st
	case *ssa.Store:
		a := fr.addrOf(x.Addr, st)
		v := fr.val(x.Val, st)
		t := pointee(x.Addr.Type())
		if a.Kind == aCell {
			fr.safety("nil", sNot(sEq(a.Obj, "0")), b, in)
		}
		fr.guardedAccess(a, b, in, st, true)
		fr.storeSiteAsserts(x, v, b, st)
		return fc.storeVal(st, a, t, v)
	case *ssa.Phi:
		return st
	case *ssa.Convert:
		fr.vals[x] = fr.convert(x, st)
		return st
	case *ssa.ChangeType:
		v := fr.val(x.X, st)
		v.T = x.Type()
		fr.vals[x] = retag(v, x.Type())
		return st
	case *ssa.ChangeInterface:
		v := fr.val(x.X, st)
		fr.vals[x] = Val{T: x.Type(), Sub: v.Sub}
		return st
	case *ssa.MakeInterface:
		v := fr.val(x.X, st)
		tag := fc.typeID(x.X.Type())
		var payload string
		switch kindOf(x.X.Type()) {
		case KRef:
			payload = v.S
		case KInt:
			if m.mode == ModeInt {
				payload = v.S
			}
		}
		if payload == "" {
			n := fc.freshName(fr.tagStr + x.Name() + "!payload")
			fc.declareConst(n, "Int")
			payload = sym(n)
		}
		fr.vals[x] = Val{T: x.Type(), Sub: []Val{{T: tRef, S: tag}, {T: tRef, S: payload}}}
		return st
	case *ssa.TypeAssert:
		return fr.typeAssert(x, b, st)
	case *ssa.Extract:
		t := fr.val(x.Tuple, st)
		if t.Sub != nil && x.Index < len(t.Sub) {
			fr.vals[x] = t.Sub[x.Index]
		} else {
			fr.vals[x] = fc.freshVal(x.Type(), x.Name())
		}
		return st
	case *ssa.Slice:
		return fr.sliceOp(x, b, st)
	case *ssa.MakeSlice:
		ln := fr.idxVal(x.Len, st)
		cp := fr.idxVal(x.Cap, st)
		z := m.intConstI(0, tInt)
		fr.safety("make", sAnd(m.cmp(token.LEQ, z, ln, tInt), m.cmp(token.LEQ, ln, cp, tInt)), b, in)
		ref, st2 := fc.alloc(st, fr.tagStr+x.Name()+"!mk")
		st = st2
		et := x.Type().Underlying().(*types.Slice).Elem()
		st = fc.zeroRow(st, ref, et)
		fr.vals[x] = Val{T: x.Type(), Sub: []Val{{T: tRef, S: ref}, {T: tInt, S: z}, {T: tInt, S: ln}, {T: tInt, S: cp}}}
		if m.mode == ModeInt {
			fc.assume(sImp(g, sx("<=", cp, "4611686018427387904")), "allocation size is addressable")
		}
		return st
	case *ssa.MakeMap, *ssa.MakeChan:
		ref, st2 := fc.alloc(st, fr.tagStr+x.(ssa.Value).Name()+"!mk")
		fr.vals[x.(ssa.Value)] = Val{T: x.(ssa.Value).Type(), S: ref}
		if mm, ok := x.(*ssa.MakeMap); ok {
			arr := "G!maplen"
			if localMap(mm) {
				arr = "L!maplen"
				fc.localMaps[ref] = true
			}
			fc.regArr(arr, "(Array Int Int)")
			st2 = st2.store(arr, sx("store", st2.get(arr), ref, "0"))
			if dom, _, ks, _ := fc.mapArrs(mm.Type(), ref); dom != "" {
				st2 = st2.store(dom, sx("store", st2.get(dom), ref, sx("(as const (Array "+ks+" Bool))", "false")))
			}
		}
		return st2
	case *ssa.MakeClosure:
		ref, st2 := fc.alloc(st, fr.tagStr+x.Name()+"!clo")
		fr.vals[x] = Val{T: x.Type(), S: ref}
		fc.closures[x] = x
		fr.closureFrames()[x] = fr
		return st2
	case *ssa.Lookup:
		return fr.lookup(x, b, st)
	case *ssa.MapUpdate:
		mv := fr.val(x.Map, st)
		fr.safety("nil", sNot(sEq(mv.S, "0")), b, in)
		fr.guardedMapAccess(x.Map, b, in, st)
		arr := fc.maplenArr(mv.S)
		// length may grow by one
		old := sx("select", st.get(arr), mv.S)
		nl := fc.freshName("maplen")
		fc.declareConst(nl, "Int")
		fc.define(sAnd(sx("<=", old, sym(nl)), sx("<=", sym(nl), sx("+", old, "1")), sx(">=", sym(nl), "1")))
		st = st.store(arr, sx("store", st.get(arr), mv.S, sym(nl)))
		if dom, val, _, scalarV := fc.mapArrs(x.Map.Type(), mv.S); dom != "" {
			kv := fr.val(x.Key, st)
			st = st.store(dom, sx("store", st.get(dom), mv.S, sx("store", sx("select", st.get(dom), mv.S), kv.S, "true")))
			_, _ = val, scalarV
			if lvs := fc.mapValLeaves(x.Map.Type(), mv.S); lvs != nil {
				vv := fr.val(x.Value, st)
				flat := map[string]string{}
				fc.mapValFlatten(vv, "", flat)
				for _, l := range lvs {
					if t, ok := flat[l.path]; ok {
						st = st.store(l.arr, sx("store", st.get(l.arr), mv.S, sx("store", sx("select", st.get(l.arr), mv.S), kv.S, t)))
					}
				}
			}
		}
		return st
	case *ssa.Range:
		fr.vals[x] = Val{T: x.Type(), S: "0"}
		if _, isMap := x.X.Type().Underlying().(*types.Map); isMap {
			// iteration over a map: ghost set of keys produced so far, and the key set at the start
			mv := fr.val(x.X, st)
			if dom, _, ks, _ := fc.mapArrs(x.X.Type(), mv.S); dom != "" {
				fc.rangeN++
				vis := fmt.Sprintf("L!rangevis!%d", fc.rangeN)
				fc.regArr(vis, "(Array "+ks+" Bool)")
				d0 := fc.freshName("rangedom0")
				fc.declareConst(d0, "(Array "+ks+" Bool)")
				fc.assume(sImp(g, sEq(sym(d0), sx("select", st.get(dom), mv.S))), "key set of the map when the range statement starts")
				if fr.mapRanges == nil {
					fr.mapRanges = map[*ssa.Range]*mapRange{}
				}
				fr.mapRanges[x] = &mapRange{vis: vis, dom0: sym(d0), m: mv, ks: ks}
				return st.setRaw(vis, "((as const (Array "+ks+" Bool)) false)")
			}
		}
		return st
	case *ssa.Next:
		v := fc.freshVal(x.Type(), fr.tagStr+x.Name())
		fc.assume(sImp(g, fc.typingFacts(st, v)), "typing of range value")
		fr.vals[x] = v
		if rg, ok := x.Iter.(*ssa.Range); ok && fr.mapRanges[rg] != nil && len(v.Sub) >= 2 {
			// Go's map iteration: a produced key is in the map and was not produced before; the iteration ends only
			// when every key that was present at the start and still is has been produced
			mr := fr.mapRanges[rg]
			dom, val, _, scalarV := fc.mapArrs(rg.X.Type(), mr.m.S)
			cur := sx("select", st.get(dom), mr.m.S)
			vis := st.get(mr.vis)
			okS, k := v.Sub[0].S, v.Sub[1].S
			fc.assume(sImp(sAnd(g, okS), sAnd(sx("select", cur, k), sNot(sx("select", vis, k)))), "map iteration produces a present, not yet produced key")
			q := "q!rk"
			fc.assume(sImp(sAnd(g, sNot(okS)), fmt.Sprintf("(forall ((%s %s)) (! (=> (and (select %s %s) (select %s %s)) (select %s %s)) :pattern ((select %s %s))))", q, mr.ks, cur, q, mr.dom0, q, vis, q, cur, q)), "map iteration ends when every remaining original key was produced")
			_, _ = val, scalarV
			if lvs := fc.mapValLeaves(rg.X.Type(), mr.m.S); lvs != nil && len(v.Sub) >= 3 {
				flat := map[string]string{}
				fc.mapValFlatten(v.Sub[2], "", flat)
				for _, l := range lvs {
					if t, ok := flat[l.path]; ok {
						fc.assume(sImp(sAnd(g, okS), sEq(t, sx("select", sx("select", st.get(l.arr), mr.m.S), k))), "map iteration value")
					}
				}
			}
			return st.setRaw(mr.vis, sIte(sAnd(g, okS), sx("store", vis, k, "true"), vis))
		}
		return st
	case *ssa.Call:
		nst := fr.call(x, x.Common(), b, st, g)
		fr.assumeGlobalInvs(nst, g, b)
		return nst
	case *ssa.Defer:
		if fr.inLoop(b) {
			fr.unsupported(in, "defer in loop")
		}
		fr.defers = append(fr.defers, &deferRec{instr: x, guard: g, block: b})
		// evaluate arguments now
		for _, a := range x.Call.Args {
			fr.val(a, st)
		}
		return st
	case *ssa.RunDefers:
		for i := len(fr.defers) - 1; i >= 0; i-- {
			d := fr.defers[i]
			if !(d.block == b || fr.isAncestor(d.block, b)) {
				continue
			}
			// conditional execution under d.guard
			before := st
			after := fr.call(d.instr, d.instr.Common(), b, st, sAnd(g, d.guard))
			fr.assumeGlobalInvs(after, sAnd(g, d.guard), b)
			if d.guard == g || d.block.Dominates(b) {
				st = after
			} else {
				st = fc.mergeStates([]*State{after, before}, []string{d.guard, "true"})
			}
		}
		return st
	case *ssa.Go:
		fr.unsupported(in, "go statement (spawned function verified separately; no interleaving semantics)")
		return st
	case *ssa.Send:
		fr.unsupported(in, "channel send")
		return st
	case *ssa.Select:
		return fr.selectOp(x, b, st)
	case *ssa.Panic:
		if fr.isTop && fc.spec != nil && !fc.spec.MayPanic && !fc.thin {
			fc.callOrd["panic"]++
			fc.addOblig(&Oblig{Name: fmt.Sprintf("%s/safety:panic#%d", fc.spec.Name, fc.callOrd["panic"]), Kind: "safety:panic", Tags: fc.spec.Tags,
				goal: sNot(g), Text: "explicit panic unreachable"})
		}
		return st
	case *ssa.If:
		c := fr.val(x.Cond, st)
		fr.edge[[2]int{b.Index, b.Succs[0].Index}] = sAnd(g, c.S)
		fr.edge[[2]int{b.Index, b.Succs[1].Index}] = sAnd(g, sNot(c.S))
		for i, s := range b.Succs {
			if isBackEdge(b, s) {
				cond := sAnd(g, c.S)
				if i == 1 {
					cond = sAnd(g, sNot(c.S))
				}
				fr.backEdge(b, s, cond, st)
			}
		}
		return st
	case *ssa.Jump:
		fr.edge[[2]int{b.Index, b.Succs[0].Index}] = g
		if isBackEdge(b, b.Succs[0]) {
			fr.backEdge(b, b.Succs[0], g, st)
		}
		return st
	case *ssa.Return:
		var res []Val
		for _, r := range x.Results {
			res = append(res, fr.val(r, st))
		}
		fc.seq++
		fr.rets = append(fr.rets, retInfo{block: b, seq: fc.seq, guard: g, res: res, state: st})
		return st
	case *ssa.SliceToArrayPointer:
		fr.unsupported(in, "conversion")
		fr.vals[in.(ssa.Value)] = fc.freshVal(in.(ssa.Value).Type(), "conv")
		return st
	}
	if v, ok := in.(ssa.Value); ok {
		fr.unsupported(in, "instruction")
		fr.vals[v] = fc.freshVal(v.Type(), v.Name())
	}
	return st
}

func (fr *Frame) inLoop(b *ssa.BasicBlock) bool {
	for _, l := range fr.loops {
		if l.blocks[b] {
			return true
		}
	}
	return false
}

func (fr *Frame) isAncestor(a, b *ssa.BasicBlock) bool {
	if fr.isTop {
		return fr.fc.anc[b][a]
	}
	return a.Dominates(b) || true
}

func retag(v Val, t types.Type) Val {
	v.T = t
	if kindOf(t) == KStruct && v.Sub != nil {
		st := t.Underlying().(*types.Struct)
		for i := range v.Sub {
			if i < st.NumFields() {
				v.Sub[i] = retag(v.Sub[i], st.Field(i).Type())
			}
		}
	}
	return v
}

func (fr *Frame) idxVal(v ssa.Value, st *State) string {
	if v == nil {
		return ""
	}
	x := fr.val(v, st)
	if kindOf(x.T) != KInt {
		return x.S
	}
	if fr.fc.m.mode == ModeBV {
		return fr.fc.m.convInt(x.S, x.T, tInt)
	}
	return x.S // mathematical value; index comparisons are on the exact value
}

func (fr *Frame) idxAdd(a, b string) string {
	e := &Env{fc: fr.fc}
	return e.idxAdd(a, b)
}

func (fr *Frame) isLocalCell(a *ssa.Alloc) bool {
	fc := fr.fc
	if v, ok := fc.locals[a]; ok {
		return v
	}
	pt := pointee(a.Type())
	ok := true
	switch kindOf(pt) {
	case KStruct, KArray:
		ok = false
	}
	if ok && a.Referrers() != nil {
		for _, r := range *a.Referrers() {
			switch u := r.(type) {
			case *ssa.Store:
				if u.Val == a {
					ok = false
				}
			case *ssa.UnOp, *ssa.DebugRef:
			case *ssa.MakeClosure:
				// a closure that escapes may run at any time: the cell stays local only if no closure body writes it
				if !closureOnlyCalled(u) && closureWrites(u, a, 0) {
					ok = false
				}
			default:
				ok = false
			}
		}
	}
	fc.locals[a] = ok
	return ok
}

// closureOnlyCalled: the closure value is used only as the callee of calls/defers (so it can be inlined or havocked locally).
func closureOnlyCalled(mc *ssa.MakeClosure) bool {
	if mc.Referrers() == nil {
		return true
	}
	for _, r := range *mc.Referrers() {
		switch u := r.(type) {
		case *ssa.DebugRef:
		case ssa.CallInstruction:
			if u.Common().Value != mc {
				return false
			}
			for _, a := range u.Common().Args {
				if a == mc {
					return false
				}
			}
			if _, isGo := u.(*ssa.Go); isGo {
				return false
			}
		default:
			return false
		}
	}
	return true
}

func (fr *Frame) closureFrames() map[ssa.Value]*Frame {
	if fr.fc.cloFrames == nil {
		fr.fc.cloFrames = map[ssa.Value]*Frame{}
	}
	return fr.fc.cloFrames
}

// ---------------------------------------------------------------------------

func (fr *Frame) unop(x *ssa.UnOp, b *ssa.BasicBlock, st *State) *State {
	fc := fr.fc
	m := fc.m
	switch x.Op {
	case token.MUL: // load
		a := fr.addrOf(x.X, st)
		t := x.Type()
		if a.Kind == aCell {
			fr.safety("nil", sNot(sEq(a.Obj, "0")), b, x)
		}
		if a.Kind == aGlobal {
			if gl, ok := x.X.(*ssa.Global); ok {
				if o, ok := gl.Object().(*types.Var); ok {
					gv := fc.globalVal(st, o)
					if kindOf(t) == KStruct && len(gv.Sub) == 0 {
						// a struct-typed package variable is an object of its own (its ref is a constant): reading the
						// variable as a value reads that object's fields
						gv = fc.load(st, &Addr{Kind: aCell, Obj: gv.S}, t)
					}
					fr.vals[x] = gv
					return st
				}
			}
		}
		fr.guardedAccess(a, b, x, st, false)
		v := fc.load(st, a, t)
		v = fr.nameVal(v, x.Name())
		fc.assume(sImp(fr.reach[b], fc.typingFacts(st, v)), "typing of loaded value")
		fr.vals[x] = v
		return st
	case token.NOT:
		fr.vals[x] = Val{T: x.Type(), S: sNot(fr.val(x.X, st).S)}
		return st
	case token.SUB:
		v := fr.val(x.X, st)
		if kindOf(x.Type()) != KInt {
			fr.vals[x] = fc.freshVal(x.Type(), x.Name())
			return st
		}
		if m.mode == ModeBV {
			fr.vals[x] = Val{T: x.Type(), S: sx("bvneg", v.S)}
		} else {
			fr.vals[x] = Val{T: x.Type(), S: m.wrap1(sx("-", v.S), x.Type())}
		}
		return st
	case token.XOR:
		v := fr.val(x.X, st)
		if m.mode == ModeBV {
			fr.vals[x] = Val{T: x.Type(), S: sx("bvnot", v.S)}
		} else {
			_, signed := intInfo(x.Type())
			if signed {
				fr.vals[x] = Val{T: x.Type(), S: sx("-", sx("-", v.S), "1")}
			} else {
				_, hi := intRange(x.Type())
				fr.vals[x] = Val{T: x.Type(), S: sx("-", bigLit(hi), v.S)}
			}
		}
		return st
	case token.ARROW:
		fr.unsupported(x, "channel receive")
		fr.vals[x] = fc.freshVal(x.Type(), x.Name())
		return st
	}
	fr.unsupported(x, "unary op")
	fr.vals[x] = fc.freshVal(x.Type(), x.Name())
	return st
}

func (fr *Frame) binop(x *ssa.BinOp, b *ssa.BasicBlock, st *State) Val {
	fc := fr.fc
	m := fc.m
	a := fr.val(x.X, st)
	c := fr.val(x.Y, st)
	t := x.X.Type()
	switch x.Op {
	case token.EQL, token.NEQ:
		env := &Env{fc: fc}
		var eq string
		switch kindOf(t) {
		case KFloat:
			fc.declareFun("float!eq", "(Int Int) Bool")
			eq = sx("float!eq", a.S, c.S)
		case KStruct, KArray:
			if a.Sub == nil || c.Sub == nil {
				n := fc.freshName("cmp")
				fc.declareConst(n, "Bool")
				eq = sym(n)
			} else {
				eq = env.equal(a, c)
			}
		case KSlice:
			// only comparison with nil is legal
			if isNilConst(x.Y) {
				eq = sEq(a.Sub[0].S, "0")
			} else {
				eq = sEq(c.Sub[0].S, "0")
			}
		case KIface:
			if isNilConst(x.Y) {
				eq = sEq(a.Sub[0].S, "0")
			} else if isNilConst(x.X) {
				eq = sEq(c.Sub[0].S, "0")
			} else {
				eq = env.equal(a, c)
			}
		default:
			eq = sEq(a.S, c.S)
		}
		if x.Op == token.NEQ {
			eq = sNot(eq)
		}
		return Val{T: tBool, S: eq}
	case token.LSS, token.LEQ, token.GTR, token.GEQ:
		switch kindOf(t) {
		case KInt:
			return Val{T: tBool, S: m.cmp(x.Op, a.S, c.S, t)}
		case KStr:
			fc.declareFun("strle", "(Str Str) Bool")
			le := func(p, q string) string { return sx("strle", p, q) }
			switch x.Op {
			case token.LEQ:
				return Val{T: tBool, S: le(a.S, c.S)}
			case token.LSS:
				return Val{T: tBool, S: sNot(le(c.S, a.S))}
			case token.GEQ:
				return Val{T: tBool, S: le(c.S, a.S)}
			default:
				return Val{T: tBool, S: sNot(le(a.S, c.S))}
			}
		}
		fc.note("floating-point comparison is uninterpreted")
		return fc.freshVal(tBool, x.Name())
	}
	switch kindOf(x.Type()) {
	case KInt:
		if x.Op == token.QUO || x.Op == token.REM {
			fr.safety("div", sNot(sEq(c.S, m.intConstI(0, t))), b, x)
		}
		s, err := m.binop(x.Op, a.S, c.S, x.Type(), x.Y.Type(), func(n, d string) {
			if _, ok := fc.declared[n]; !ok {
				fc.declared[n] = d
				fc.decls = append(fc.decls, d)
			}
		})
		if err != nil {
			fr.unsupported(x, err.Error())
			return fc.freshVal(x.Type(), x.Name())
		}
		v := Val{T: x.Type(), S: s}
		if m.mode == ModeInt && strings.Contains(s, "!") && (x.Op == token.AND || x.Op == token.OR || x.Op == token.XOR || x.Op == token.AND_NOT || x.Op == token.SHL || x.Op == token.SHR) {
			fc.define(m.inRange(s, x.Type()))
			fc.note("bit operation on non-constant operands is an uninterpreted function in int mode")
		}
		return v
	case KStr:
		if x.Op == token.ADD {
			fc.declareFun("strcat", "(Str Str) Str")
			v := Val{T: x.Type(), S: sx("strcat", a.S, c.S)}
			if m.mode == ModeInt {
				fc.define(sEq(sx("strlen", v.S), sx("+", sx("strlen", a.S), sx("strlen", c.S))))
			}
			return v
		}
	case KBool:
		switch x.Op {
		case token.AND, token.LAND:
			return Val{T: tBool, S: sAnd(a.S, c.S)}
		case token.OR, token.LOR:
			return Val{T: tBool, S: sOr(a.S, c.S)}
		}
	}
	if kindOf(x.Type()) == KFloat {
		fc.note("floating-point arithmetic is uninterpreted")
	} else {
		fr.unsupported(x, "binop")
	}
	return fc.freshVal(x.Type(), x.Name())
}

func isNilConst(v ssa.Value) bool {
	c, ok := v.(*ssa.Const)
	return ok && c.Value == nil
}

func (fr *Frame) convert(x *ssa.Convert, st *State) Val {
	fc := fr.fc
	m := fc.m
	v := fr.val(x.X, st)
	from, to := x.X.Type(), x.Type()
	kf, kt := kindOf(from), kindOf(to)
	switch {
	case kf == KInt && kt == KInt:
		return fr.nameVal(Val{T: to, S: m.convInt(v.S, from, to)}, x.Name())
	case kf == KSlice && kt == KStr:
		// string(bytes): a function of the bytes' content (row, offset, length)
		return Val{T: to, S: fc.bytesStr(st, v)}
	case kf == KStr && kt == KSlice:
		// []byte(s): a fresh slice whose content, read back as a string, is s
		r := fc.freshVal(to, fr.tagStr+x.Name())
		fc.define(sAnd(sEq(r.Sub[2].S, sx("strlen", v.S)), sEq(r.Sub[1].S, m.intConstI(0, tInt))))
		if et, ok := to.Underlying().(*types.Slice); ok && typeKey(et.Elem()) == "uint8" {
			fc.define(sEq(fc.bytesStr(st, r), v.S))
		}
		return r
	case kf == KRef && kt == KRef:
		return Val{T: to, S: v.S}
	case kf == KInt && kt == KStr:
		return fc.freshVal(to, x.Name())
	}
	if kf == KFloat || kt == KFloat {
		r := fc.freshVal(to, fr.tagStr+x.Name())
		fc.note("float/integer conversions are uninterpreted")
		return r
	}
	fr.unsupported(x, "convert")
	return fc.freshVal(to, x.Name())
}

func (fr *Frame) typeAssert(x *ssa.TypeAssert, b *ssa.BasicBlock, st *State) *State {
	fc := fr.fc
	v := fr.val(x.X, st)
	at := x.AssertedType
	var okS string
	var res Val
	if types.IsInterface(at) {
		n := fc.freshName(fr.tagStr + x.Name() + "!implements")
		fc.declareConst(n, "Bool")
		okS = sAnd(sNot(sEq(v.Sub[0].S, "0")), sym(n))
		res = Val{T: at, Sub: v.Sub}
	} else {
		okS = sEq(v.Sub[0].S, fc.typeID(at))
		switch kindOf(at) {
		case KRef:
			res = Val{T: at, S: v.Sub[1].S}
		case KInt:
			if fc.m.mode == ModeInt {
				res = Val{T: at, S: v.Sub[1].S}
			} else {
				res = fc.freshVal(at, x.Name())
			}
		default:
			res = fc.freshVal(at, x.Name())
		}
	}
	if x.CommaOk {
		z := fc.zeroVal(at)
		// result is zero value when !ok
		var r Val
		if res.Sub != nil {
			r = fr.mergeVals(at, []Val{res, z}, []string{okS, "true"})
		} else {
			r = Val{T: at, S: sIte(okS, res.S, z.S)}
		}
		fr.vals[x] = Val{T: x.Type(), Sub: []Val{r, {T: tBool, S: okS}}}
	} else {
		fr.safety("assert-type", okS, b, x)
		fr.vals[x] = res
	}
	return st
}

func (fr *Frame) sliceOp(x *ssa.Slice, b *ssa.BasicBlock, st *State) *State {
	fc := fr.fc
	m := fc.m
	z := m.intConstI(0, tInt)
	v := fr.val(x.X, st)
	lo := z
	if x.Low != nil {
		lo = fr.idxVal(x.Low, st)
	}
	e := &Env{fc: fc}
	switch xt := x.X.Type().Underlying().(type) {
	case *types.Slice:
		hi := v.Sub[2].S
		if x.High != nil {
			hi = fr.idxVal(x.High, st)
		}
		cp := v.Sub[3].S
		mx := cp
		if x.Max != nil {
			mx = fr.idxVal(x.Max, st)
		}
		fr.safety("slice", sAnd(m.cmp(token.LEQ, z, lo, tInt), m.cmp(token.LEQ, lo, hi, tInt), m.cmp(token.LEQ, hi, mx, tInt), m.cmp(token.LEQ, mx, cp, tInt)), b, x)
		r := Val{T: x.Type(), Sub: []Val{v.Sub[0], {T: tInt, S: e.idxAdd(v.Sub[1].S, lo)}, {T: tInt, S: e.idxSub(hi, lo)}, {T: tInt, S: e.idxSub(mx, lo)}}}
		fr.vals[x] = fr.nameVal(r, x.Name())
	case *types.Pointer: // *[N]T
		arr := xt.Elem().Underlying().(*types.Array)
		n := m.intConstI(arr.Len(), tInt)
		hi := n
		if x.High != nil {
			hi = fr.idxVal(x.High, st)
		}
		fr.safety("slice", sAnd(m.cmp(token.LEQ, z, lo, tInt), m.cmp(token.LEQ, lo, hi, tInt), m.cmp(token.LEQ, hi, n, tInt)), b, x)
		fr.safety("nil", sNot(sEq(v.S, "0")), b, x)
		r := Val{T: x.Type(), Sub: []Val{{T: tRef, S: v.S}, {T: tInt, S: lo}, {T: tInt, S: e.idxSub(hi, lo)}, {T: tInt, S: e.idxSub(n, lo)}}}
		fr.vals[x] = fr.nameVal(r, x.Name())
	case *types.Basic: // string
		hi := sx("strlen", v.S)
		if x.High != nil {
			hi = fr.idxVal(x.High, st)
		}
		fr.safety("slice", sAnd(m.cmp(token.LEQ, z, lo, tInt), m.cmp(token.LEQ, lo, hi, tInt), m.cmp(token.LEQ, hi, sx("strlen", v.S), tInt)), b, x)
		fc.declareFun("str!sub", "(Str "+m.idxSort()+" "+m.idxSort()+") Str")
		r := Val{T: x.Type(), S: sx("str!sub", v.S, lo, hi)}
		fc.define(sEq(sx("strlen", r.S), e.idxSub(hi, lo)))
		fr.vals[x] = r
	default:
		fr.unsupported(x, "slice")
		fr.vals[x] = fc.freshVal(x.Type(), x.Name())
	}
	return st
}

func (fr *Frame) lookup(x *ssa.Lookup, b *ssa.BasicBlock, st *State) *State {
	fc := fr.fc
	if kindOf(x.X.Type()) == KStr {
		base := fr.val(x.X, st)
		idx := fr.idxVal(x.Index, st)
		fc.declareFun("strbyte", "(Str "+fc.m.idxSort()+") "+fc.m.intSort(tByte))
		v := Val{T: tByte, S: sx("strbyte", base.S, idx)}
		fc.define(fc.m.inRange(v.S, tByte))
		fr.vals[x] = v
		return st
	}
	fr.guardedMapAccess(x.X, b, x, st)
	// map contents are not modelled: the result is unconstrained (typed)
	v := fc.freshVal(x.Type(), fr.tagStr+x.Name())
	fc.assume(sImp(fr.reach[b], fc.typingFacts(st, v)), "typing of map lookup")
	// an empty (or nil) map yields the zero value and ok == false
	mv := fr.val(x.X, st)
	if kindOf(mv.T) == KRef {
		arr := fc.maplenArr(mv.S)
		empty := sOr(sEq(mv.S, "0"), sEq(sx("select", st.get(arr), mv.S), "0"))
		elemT := x.Type()
		res := v
		if x.CommaOk && len(v.Sub) == 2 {
			res = v.Sub[0]
			elemT = v.Sub[0].T
			fc.assume(sImp(sAnd(fr.reach[b], empty), sNot(v.Sub[1].S)), "lookup in an empty map reports absence")
		}
		if kindOf(elemT) != KStruct && kindOf(elemT) != KTuple && kindOf(elemT) != KArray {
			env := &Env{fc: fc}
			fc.assume(sImp(sAnd(fr.reach[b], empty), env.equal(res, fc.zeroVal(elemT))), "lookup in an empty map yields the zero value")
		}
	}
	if kindOf(mv.T) == KRef {
		if dom, val, _, scalarV := fc.mapArrs(x.X.Type(), mv.S); dom != "" {
			kv := fr.val(x.Index, st)
			has := sx("select", sx("select", st.get(dom), mv.S), kv.S)
			res := v
			if x.CommaOk && len(v.Sub) == 2 {
				res = v.Sub[0]
				fc.assume(sImp(fr.reach[b], sEq(v.Sub[1].S, has)), "comma-ok of a map lookup is key presence")
			}
			_, _ = val, scalarV
			if lvs := fc.mapValLeaves(x.X.Type(), mv.S); lvs != nil {
				flat, zflat := map[string]string{}, map[string]string{}
				fc.mapValFlatten(res, "", flat)
				fc.mapValFlatten(fc.zeroVal(res.T), "", zflat)
				for _, l := range lvs {
					t, ok1 := flat[l.path]
					z, ok2 := zflat[l.path]
					if ok1 && ok2 {
						got := sx("select", sx("select", st.get(l.arr), mv.S), kv.S)
						fc.assume(sImp(fr.reach[b], sEq(t, sIte(has, got, z))), "value of a map lookup")
					}
				}
			}
		}
	}
	fr.vals[x] = v
	fc.note("maps: key presence and scalar values are modelled; iteration order, slice/struct values and exact lengths are not")
	return st
}

func (fr *Frame) selectOp(x *ssa.Select, b *ssa.BasicBlock, st *State) *State {
	fc := fr.fc
	v := fc.freshVal(x.Type(), fr.tagStr+x.Name())
	// index result in [-1, len(states))
	m := fc.m
	idx := v.Sub[0].S
	lo := int64(0)
	if !x.Blocking {
		lo = -1
	}
	fc.assume(sImp(fr.reach[b], sAnd(m.cmp(token.LEQ, m.intConstI(lo, tInt), idx, tInt), m.cmp(token.LSS, idx, m.intConstI(int64(len(x.States)), tInt), tInt))), "select index range")
	// ghost: a receive that fires on a channel nobody sends on means the channel is closed
	fc.regArr("G!chanClosed", "(Array Int Bool)")
	for i, s := range x.States {
		if s.Dir == types.RecvOnly {
			ch := fr.val(s.Chan, st)
			fired := sEq(idx, m.intConstI(int64(i), tInt))
			closed := sx("select", st.get("G!chanClosed"), ch.S)
			// known-closed channel: receive is ready, so default is not taken (single-case select)
			if len(x.States) == 1 && !x.Blocking {
				fc.assume(sImp(sAnd(fr.reach[b], closed), fired), "receive on a closed channel is always ready")
			}
			st2 := st.store("G!chanClosed", sx("store", st.get("G!chanClosed"), ch.S, sOr(closed, fired)))
			st = st2
			fc.note("select: a ready receive on the close channel is taken to mean the channel is closed (nobody sends on it)")
		}
	}
	fr.vals[x] = v
	return st
}

// guardedAccess asserts lock ownership for fields declared guarded.
func (fr *Frame) guardedAccess(a *Addr, b *ssa.BasicBlock, in ssa.Instruction, st *State, write bool) {
	fc := fr.fc
	if a.Kind != aField || !fr.isTop || fc.spec == nil {
		return
	}
	if strings.Contains(a.Obj, "!new!") {
		return // the object is being constructed by this activation and is not shared yet
	}
	stn := structName(a.ST)
	fname := a.ST.Underlying().(*types.Struct).Field(a.F).Name()
	for _, gd := range fc.g.specs.Guards {
		if gd.Type != stn || gd.Field != fname {
			continue
		}
		if kindOf(a.ST.Underlying().(*types.Struct).Field(a.F).Type()) == KRef && !write {
			// reading the map header itself is done under the lock as well in zapx; checked at the access
		}
		fr.lockHeld(gd, a.Obj, b, in, st, write)
	}
}

func (fr *Frame) guardedMapAccess(mv ssa.Value, b *ssa.BasicBlock, in ssa.Instruction, st *State) {}

func (fr *Frame) lockHeld(gd Guard, obj string, b *ssa.BasicBlock, in ssa.Instruction, st *State, write bool) {
	fc := fr.fc
	// address of the lock field inside obj
	stT := fc.g.namedType(gd.Type)
	if stT == nil {
		return
	}
	s := stT.Underlying().(*types.Struct)
	for i := 0; i < s.NumFields(); i++ {
		if s.Field(i).Name() == gd.Lock {
			lockRef := fc.embRef(stT, i, obj)
			fc.regArr("G!muHeld", "(Array Int Int)")
			held := sx("select", st.get("G!muHeld"), lockRef)
			cond := sx(">=", held, "1") // 1 = read-locked, 2 = write-locked
			if write {
				cond = sEq(held, "2")
			}
			fc.callOrd["guard"]++
			kind := "read"
			if write {
				kind = "write"
			}
			fc.addOblig(&Oblig{Name: fmt.Sprintf("%s/guarded:%s.%s#%d", fc.spec.Name, gd.Type, gd.Field, fc.callOrd["guard"]), Kind: "guarded", Tags: guardTags(fc),
				goal: sImp(fr.reach[b], cond), Text: kind + " of " + gd.Type + "." + gd.Field + " requires " + gd.Lock + " held"})
		}
	}
}

func guardTags(fc *FnCtx) []string {
	if fc.spec != nil {
		return fc.spec.Tags
	}
	return nil
}

// lookupExitLocal resolves a local variable at the function's (merged) exit: only variables that denote one SSA value
// over the whole function (single definition) or that live in a memory cell are available.
func (fr *Frame) lookupExitLocal(name string, st *State) (Val, bool) {
	fc := fr.fc
	if v, ok := fr.lookupFreeVar(name, st); ok {
		return v, true
	}
	for _, b := range fr.fn.Blocks {
		for _, in := range b.Instrs {
			if a, ok := in.(*ssa.Alloc); ok && a.Comment == name {
				if ad, ok := fr.addrs[a]; ok {
					return fc.load(st, ad, pointee(a.Type())), true
				}
				if v, ok := fr.vals[a]; ok {
					return fc.load(st, &Addr{Kind: aCell, Obj: v.S}, pointee(a.Type())), true
				}
			}
		}
	}
	var found ssa.Value
	for _, b := range fr.fn.Blocks {
		for _, in := range b.Instrs {
			d, ok := in.(*ssa.DebugRef)
			if !ok || d.IsAddr || d.Object() == nil || d.Object().Name() != name {
				continue
			}
			if _, isVar := d.Object().(*types.Var); !isVar || isPkgLevel(d.Object()) {
				continue
			}
			if found != nil && found != d.X {
				return Val{}, false
			}
			found = d.X
		}
	}
	if found != nil {
		if v, ok := fr.vals[found]; ok {
			// on executions that never passed the definition the variable does not exist yet: zero value
			if in, ok := found.(ssa.Instruction); ok && in.Block() != nil {
				if g, ok := fr.reach[in.Block()]; ok && g != "true" {
					z := fc.zeroVal(v.T)
					return fr.mergeVals(v.T, []Val{v, z}, []string{g, "true"}), true
				}
			}
			return v, true
		}
	}
	return Val{}, false
}

// localMap: the map never leaves this activation (only looked up, updated, measured, ranged over).
func localMap(mm *ssa.MakeMap) bool {
	if mm.Referrers() == nil {
		return true
	}
	for _, r := range *mm.Referrers() {
		switch u := r.(type) {
		case *ssa.DebugRef, *ssa.Lookup, *ssa.Range:
		case *ssa.MapUpdate:
			if u.Map != mm {
				return false
			}
		case *ssa.Call:
			b, ok := u.Call.Value.(*ssa.Builtin)
			if !ok || (b.Name() != "len" && b.Name() != "delete") {
				return false
			}
		default:
			return false
		}
	}
	return true
}

func (fc *FnCtx) maplenArr(ref string) string {
	arr := "G!maplen"
	if fc.localMaps[ref] {
		arr = "L!maplen"
	}
	fc.regArr(arr, "(Array Int Int)")
	return arr
}

// closureLocalMods: local cells of the enclosing activation written by a closure body (transitively through nested closures).
func (fr *Frame) closureLocalMods(mc *ssa.MakeClosure, ms *ModSet, depth int) {
	if depth > 3 {
		return
	}
	owner := fr.fc.cloFrames[mc]
	if owner == nil {
		owner = fr
	}
	cfn, ok := mc.Fn.(*ssa.Function)
	if !ok {
		return
	}
	for _, b := range cfn.Blocks {
		for _, in := range b.Instrs {
			stI, ok := in.(*ssa.Store)
			if !ok {
				continue
			}
			fv, ok := stI.Addr.(*ssa.FreeVar)
			if !ok {
				continue
			}
			for i, f := range cfn.FreeVars {
				if f == fv && i < len(mc.Bindings) {
					if ad, ok := owner.addrs[mc.Bindings[i]]; ok && ad.Kind == aLocal {
						fr.fc.storeNames(ad, pointee(fv.Type()), ms.Names)
					}
				}
			}
		}
	}
}

// closureWrites: does the closure (or a closure nested in it) store to the captured variable alloc?
func closureWrites(mc *ssa.MakeClosure, alloc ssa.Value, depth int) bool {
	if depth > 4 {
		return true
	}
	fn, ok := mc.Fn.(*ssa.Function)
	if !ok {
		return true
	}
	for i, bnd := range mc.Bindings {
		if bnd != alloc || i >= len(fn.FreeVars) {
			continue
		}
		fv := fn.FreeVars[i]
		if fv.Referrers() == nil {
			continue
		}
		for _, r := range *fv.Referrers() {
			switch u := r.(type) {
			case *ssa.Store:
				if u.Addr == fv {
					return true
				}
				if u.Val == fv {
					return true // address escapes
				}
			case *ssa.UnOp, *ssa.DebugRef:
			case *ssa.MakeClosure:
				if closureWrites(u, fv, depth+1) {
					return true
				}
			default:
				return true
			}
		}
	}
	return false
}

func isPkgLevel(o types.Object) bool {
	return o.Pkg() != nil && o.Parent() == o.Pkg().Scope()
}

// Precise map model (besides the length): per map type, dom : ref -> key -> Bool and, for scalar values, val : ref -> key -> V.
// mapLeaf: one scalar component of a map's value type and the array that holds it (ref -> key -> component).
type mapLeaf struct {
	path string
	arr  string
	sort string
}

// mapValLeaves enumerates the scalar components of the element type of map type mt (scalars, slices, interfaces and
// structs of those); nil when the element type is outside that subset.
func (fc *FnCtx) mapValLeaves(mt types.Type, ref string) []mapLeaf {
	m, ok := mt.Underlying().(*types.Map)
	if !ok {
		return nil
	}
	dom, _, ks, _ := fc.mapArrs(mt, ref)
	if dom == "" {
		return nil
	}
	pfx := "G!"
	if fc.localMaps[ref] {
		pfx = "L!"
	}
	base := pfx + "mapval!" + typeKey(m.Key()) + "!" + typeKey(m.Elem())
	var out []mapLeaf
	okAll := true
	var walk func(t types.Type, path string)
	walk = func(t types.Type, path string) {
		switch kindOf(t) {
		case KStruct:
			st := t.Underlying().(*types.Struct)
			for i := 0; i < st.NumFields(); i++ {
				walk(st.Field(i).Type(), path+"."+st.Field(i).Name())
			}
		case KInt, KBool, KRef, KStr, KSlice, KIface:
			for _, l := range fc.leafSorts(t) {
				n := base + path + l[0]
				fc.regArr(n, "(Array Int (Array "+ks+" "+l[1]+"))")
				out = append(out, mapLeaf{path + l[0], n, l[1]})
			}
		default:
			okAll = false
		}
	}
	walk(m.Elem(), "")
	if !okAll {
		return nil
	}
	return out
}

// mapValBuild assembles a value of type t from its scalar components.
func (fc *FnCtx) mapValBuild(t types.Type, path string, get func(path string) string) Val {
	if kindOf(t) == KStruct {
		st := t.Underlying().(*types.Struct)
		v := Val{T: t}
		for i := 0; i < st.NumFields(); i++ {
			v.Sub = append(v.Sub, fc.mapValBuild(st.Field(i).Type(), path+"."+st.Field(i).Name(), get))
		}
		return v
	}
	return fc.buildFromLeaves(t, func(suffix string) string { return get(path + suffix) })
}

// mapValFlatten is the inverse of mapValBuild.
func (fc *FnCtx) mapValFlatten(v Val, path string, out map[string]string) {
	if kindOf(v.T) == KStruct && v.Sub != nil {
		st := v.T.Underlying().(*types.Struct)
		for i := 0; i < st.NumFields() && i < len(v.Sub); i++ {
			fc.mapValFlatten(v.Sub[i], path+"."+st.Field(i).Name(), out)
		}
		return
	}
	for sfx, t := range leavesOf(v) {
		out[path+sfx] = t
	}
}

// bytesStr: the string made of the bytes of slice v in state st (uninterpreted function of row content, offset, length).
func (fc *FnCtx) bytesStr(st *State, v Val) string {
	m := fc.m
	et := types.Type(tByte)
	if sl, ok := v.T.Underlying().(*types.Slice); ok {
		et = sl.Elem()
	}
	n := "E!" + typeKey(et)
	fc.regArr(n, "(Array Int (Array "+m.idxSort()+" "+m.scalarSort(et)+"))")
	fn := "bytes!str!" + typeKey(et)
	fc.declareFun(fn, "((Array "+m.idxSort()+" "+m.scalarSort(et)+") "+m.idxSort()+" "+m.idxSort()+") Str")
	s := sx(fn, sx("select", st.get(n), v.Sub[0].S), v.Sub[1].S, v.Sub[2].S)
	fc.define(sEq(sx("strlen", s), v.Sub[2].S))
	return s
}

func (fc *FnCtx) mapArrs(mt types.Type, ref string) (dom, val string, ks string, scalarV bool) {
	m, ok := mt.Underlying().(*types.Map)
	if !ok {
		return "", "", "", false
	}
	switch kindOf(m.Key()) {
	case KInt, KStr, KBool, KRef:
	default:
		return "", "", "", false
	}
	pfx := "G!"
	if fc.localMaps[ref] {
		pfx = "L!"
	}
	ks = fc.m.scalarSort(m.Key())
	dom = pfx + "mapdom!" + typeKey(m.Key())
	fc.regArr(dom, "(Array Int (Array "+ks+" Bool))")
	switch kindOf(m.Elem()) {
	case KInt, KBool, KRef, KStr:
		scalarV = true
		val = pfx + "mapval!" + typeKey(m.Key()) + "!" + typeKey(m.Elem())
		fc.regArr(val, "(Array Int (Array "+ks+" "+fc.m.scalarSort(m.Elem())+"))")
	}
	return
}

// storeSiteAsserts: `assert store NAME#k : E` - an assertion at the k-th (in source order) element or field store
// through the local variable NAME (`NAME[i] = v`, `NAME.f = v`); $v is the value stored. Used where a branch contains
// no call to hang a call-site assertion on.
func (fr *Frame) storeSiteAsserts(x *ssa.Store, v Val, b *ssa.BasicBlock, st *State) {
	fc := fr.fc
	if !fr.isTop || fc.spec == nil {
		return
	}
	has := false
	for _, c := range fc.spec.Asserts {
		if strings.HasPrefix(c.Site, "store ") {
			has = true
		}
	}
	if !has {
		return
	}
	if fc.storeOrd == nil {
		// name every store by the local variable its address is derived from, ordinals by source position
		fc.storeOrd = map[*ssa.Store]string{}
		names := map[ssa.Value]string{}
		for _, bb := range fr.fn.Blocks {
			for _, in := range bb.Instrs {
				if d, ok := in.(*ssa.DebugRef); ok && d.Object() != nil {
					if _, isVar := d.Object().(*types.Var); isVar {
						names[d.X] = d.Object().Name()
					}
				}
			}
		}
		type rec struct {
			s   *ssa.Store
			pos token.Pos
			n   string
		}
		var all []rec
		for _, bb := range fr.fn.Blocks {
			for _, in := range bb.Instrs {
				s2, ok := in.(*ssa.Store)
				if !ok {
					continue
				}
				var base ssa.Value
				switch ad := s2.Addr.(type) {
				case *ssa.IndexAddr:
					base = ad.X
				case *ssa.FieldAddr:
					base = ad.X
				}
				if base == nil {
					continue
				}
				if n, ok := names[base]; ok {
					all = append(all, rec{s2, s2.Pos(), n})
				}
			}
		}
		sort.Slice(all, func(i, j int) bool { return all[i].pos < all[j].pos })
		cnt := map[string]int{}
		for _, r := range all {
			cnt[r.n]++
			fc.storeOrd[r.s] = fmt.Sprintf("store %s#%d", r.n, cnt[r.n])
		}
	}
	site, ok := fc.storeOrd[x]
	if !ok {
		return
	}
	for _, c := range fc.spec.Asserts {
		if c.Site != site || !fc.modeOK(c) {
			continue
		}
		cenv := fr.specEnv(st, nil, nil)
		cenv.localsFirst = true
		cenv.names["$v"] = v
		cenv.lookup = func(n string, st2 *State) (Val, bool) { return fr.lookupLocalAt(n, st2, b, x) }
		f := cenv.bool(c.Expr)
		fc.addOblig(&Oblig{Name: fmt.Sprintf("%s/assert#%d@%s", fc.spec.Name, c.Ord, strings.ReplaceAll(site, " ", ":")), Kind: "assert", Tags: c.Tags,
			goal: sImp(fr.reach[b], f), Text: c.Text, Spec: c})
		c.bound = true
	}
}
