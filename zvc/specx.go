package main

// Translation of spec expressions to SMT terms in an environment.

import (
	"fmt"
	"go/constant"
	"go/token"
	"go/types"
	"math/big"
	"strings"

	"golang.org/x/tools/go/ssa"
)

type Env struct {
	fc     *FnCtx
	names  map[string]Val
	state  *State
	old    *State
	lookup func(name string, st *State) (Val, bool) // locals (memory-resident ones are read in st)
	lookupEntry func(name string, st *State) (Val, bool) // locals with the values they had when the loop was entered
	bound  map[string]Val
	pkg    *types.Package
	errs   *[]string
	derefs map[string]func(*State) Val
	localsFirst bool // invariants/asserts: a name denotes the current value of the variable
	inOld  bool
	applyClo func(name string, args []Val, st *State) (Val, bool) // call(f, args): apply a closure argument
	oldLocals bool // old() keeps resolving locals (call-site clauses: old = state before the call)
	relL, relR *Env // relational clauses: environments of the two runs
	loopPre *State // invariants: the state on entry to the loop, for entry(e)
	prevSt     *State // step clauses: the state at the loop head, for prev(e)
	lookupPrev func(name string, st *State) (Val, bool)
}

func (e *Env) with(state *State) *Env {
	c := *e
	c.state = state
	return &c
}

func (e *Env) errorf(f string, a ...any) Val {
	msg := fmt.Sprintf(f, a...)
	if e.errs != nil {
		*e.errs = append(*e.errs, msg)
	}
	return Val{T: tBool, S: "false"}
}

func (e *Env) bool(x *SExpr) string {
	v := e.tr(x)
	if kindOf(v.T) != KBool {
		e.errorf("boolean expected in %s", x.String())
		return "false"
	}
	return v.S
}

var basicTypes = map[string]types.Type{
	"int": types.Typ[types.Int], "int8": types.Typ[types.Int8], "int16": types.Typ[types.Int16], "int32": types.Typ[types.Int32], "int64": types.Typ[types.Int64],
	"uint": types.Typ[types.Uint], "uint8": types.Typ[types.Uint8], "uint16": types.Typ[types.Uint16], "uint32": types.Typ[types.Uint32], "uint64": types.Typ[types.Uint64],
	"byte": types.Typ[types.Uint8], "bool": types.Typ[types.Bool], "string": types.Typ[types.String], "uintptr": types.Typ[types.Uintptr],
	"ref": types.Typ[types.UnsafePointer], "set": types.Typ[types.UnsafePointer], "float32": types.Typ[types.Float32], "float64": types.Typ[types.Float64],
}

func (e *Env) typeByName(n string) types.Type {
	if t, ok := basicTypes[n]; ok {
		return t
	}
	if n == "bytes" {
		return types.NewSlice(tByte)
	}
	if n == "u64s" {
		return types.NewSlice(tUint64)
	}
	if n == "error" || n == "any" {
		return types.Universe.Lookup(n).Type()
	}
	if strings.HasPrefix(n, "ptr_") {
		inner := strings.ReplaceAll(n[4:], "_DOT_", ".")
		if strings.Contains(inner, ".") {
			if t := e.fc.g.namedType(inner); t != nil {
				return types.NewPointer(t)
			}
		}
		if t := e.typeByName(n[4:]); t != nil {
			return types.NewPointer(t)
		}
		return nil
	}
	if e.pkg != nil {
		if o := e.pkg.Scope().Lookup(n); o != nil {
			if tn, ok := o.(*types.TypeName); ok {
				return tn.Type()
			}
		}
	}
	return nil
}

func (e *Env) coerce(v Val, t types.Type) Val {
	if v.Untyped && kindOf(t) == KInt {
		b, _ := new(big.Int).SetString(v.S, 10)
		return Val{T: t, S: e.fc.m.intConst(b, t)}
	}
	return v
}

// unify untyped constants
func (e *Env) unify(a, b Val) (Val, Val) {
	if a.Untyped && !b.Untyped {
		a = e.coerce(a, b.T)
	} else if b.Untyped && !a.Untyped {
		b = e.coerce(b, a.T)
	} else if a.Untyped && b.Untyped {
		a = e.coerce(a, tInt)
		b = e.coerce(b, tInt)
	}
	return a, b
}

func (e *Env) tr(x *SExpr) Val {
	fc := e.fc
	m := fc.m
	switch x.Op {
	case "lit":
		b, ok := new(big.Int).SetString(x.Name, 0)
		if !ok {
			return e.errorf("bad literal %s", x.Name)
		}
		return Val{T: types.Typ[types.UntypedInt], S: b.String(), Untyped: true}
	case "str":
		return Val{T: tString, S: fc.strLit(x.Name)}
	case "ident":
		return e.ident(x.Name)
	case "old":
		if e.old == nil {
			return e.errorf("old() not available here")
		}
		ne := e.with(e.old)
		ne.inOld = true
		return ne.tr(x.Args[0])
	case "unary":
		v := e.tr(x.Args[0])
		switch x.Name {
		case "!":
			return Val{T: tBool, S: sNot(v.S)}
		case "-":
			if v.Untyped {
				b, _ := new(big.Int).SetString(v.S, 10)
				return Val{T: v.T, S: b.Neg(b).String(), Untyped: true}
			}
			if m.mode == ModeBV {
				return Val{T: v.T, S: sx("bvneg", v.S)}
			}
			return Val{T: v.T, S: sx("-", v.S)}
		case "^":
			if m.mode == ModeBV {
				return Val{T: v.T, S: sx("bvnot", v.S)}
			}
		}
		return e.errorf("unary %s unsupported", x.Name)
	case "binary":
		return e.binary(x)
	case "sel":
		return e.sel(x)
	case "index":
		a := e.tr(x.Args[0])
		i := e.coerce(e.tr(x.Args[1]), tInt)
		switch kindOf(a.T) {
		case KSlice:
			et := a.T.Underlying().(*types.Slice).Elem()
			i = e.toIdx(i)
			idx := e.idxAdd(a.Sub[1].S, i.S)
			return fc.load(e.state, &Addr{Kind: aElem, Obj: a.Sub[0].S, Idx: idx}, et)
		case KStr:
			fc.declareFun("strbyte", "(Str "+m.idxSort()+") "+m.intSort(tByte))
			return Val{T: tByte, S: sx("strbyte", a.S, e.toIdx(i).S)}
		case KArray:
			return Val{T: a.T.Underlying().(*types.Array).Elem(), S: sx("select", a.S, e.toIdx(i).S)}
		case KRef:
			if p, ok := a.T.Underlying().(*types.Pointer); ok {
				if arr, ok := p.Elem().Underlying().(*types.Array); ok {
					return fc.load(e.state, &Addr{Kind: aElem, Obj: a.S, Idx: e.toIdx(i).S}, arr.Elem())
				}
			}
		}
		return e.errorf("cannot index %s", x.Args[0].String())
	case "slice":
		a := e.tr(x.Args[0])
		if kindOf(a.T) != KSlice {
			return e.errorf("slice of non-slice %s", x.Args[0].String())
		}
		lo := m.intConstI(0, tInt)
		hi := a.Sub[2].S
		if x.Args[1] != nil {
			lo = e.toIdx(e.coerce(e.tr(x.Args[1]), tInt)).S
		}
		if x.Args[2] != nil {
			hi = e.toIdx(e.coerce(e.tr(x.Args[2]), tInt)).S
		}
		return Val{T: a.T, Sub: []Val{a.Sub[0], {T: tInt, S: e.idxAdd(a.Sub[1].S, lo)}, {T: tInt, S: e.idxSub(hi, lo)}, {T: tInt, S: e.idxSub(a.Sub[3].S, lo)}}}
	case "call":
		return e.call(x)
	case "forall", "exists":
		ne := *e
		ne.bound = map[string]Val{}
		for k, v := range e.bound {
			ne.bound[k] = v
		}
		var decl, guards []string
		for _, v := range x.Vars {
			n := "q!" + v.Name
			if isArrParam(v.Type) {
				et := arrParamElem(v.Type)
				ne.bound[v.Name] = Val{T: types.NewArray(et, 0), S: n}
				decl = append(decl, fmt.Sprintf("(%s %s)", n, fc.sfSort(v.Type)))
				continue
			}
			t := e.typeByName(v.Type)
			if t == nil {
				return e.errorf("unknown type %s", v.Type)
			}
			ne.bound[v.Name] = Val{T: t, S: n}
			decl = append(decl, fmt.Sprintf("(%s %s)", n, m.scalarSort(t)))
			if kindOf(t) == KInt {
				guards = append(guards, m.inRange(n, t))
			}
		}
		body := ne.bool(x.Args[0])
		if x.Op == "forall" {
			inner := sImp(sAnd(guards...), body)
			if len(x.Trigs) > 0 {
				var pats []string
				for _, g := range x.Trigs {
					var ts []string
					for _, t := range g {
						ts = append(ts, ne.tr(t).S)
					}
					pats = append(pats, ":pattern ("+strings.Join(ts, " ")+")")
				}
				inner = fmt.Sprintf("(! %s %s)", inner, strings.Join(pats, " "))
			}
			return Val{T: tBool, S: fmt.Sprintf("(forall (%s) %s)", strings.Join(decl, " "), inner)}
		}
		return Val{T: tBool, S: fmt.Sprintf("(exists (%s) %s)", strings.Join(decl, " "), sAnd(append(guards, body)...))}
	}
	return e.errorf("unsupported expression %s", x.Op)
}

func (e *Env) toIdx(v Val) Val {
	// convert an integer to the index type (int)
	if v.Untyped {
		return e.coerce(v, tInt)
	}
	if kindOf(v.T) != KInt {
		return v
	}
	if e.fc.m.mode == ModeBV {
		return Val{T: tInt, S: e.fc.m.convInt(v.S, v.T, tInt)}
	}
	return Val{T: tInt, S: v.S} // mathematical in int mode
}

func (e *Env) idxAdd(a, b string) string {
	if e.fc.m.mode == ModeBV {
		return sx("bvadd", a, b)
	}
	if b == "0" {
		return a
	}
	if a == "0" {
		return b
	}
	return sx("+", a, b)
}

func (e *Env) idxSub(a, b string) string {
	if e.fc.m.mode == ModeBV {
		return sx("bvsub", a, b)
	}
	if b == "0" {
		return a
	}
	return sx("-", a, b)
}

func (e *Env) ident(n string) Val {
	fc := e.fc
	if v, ok := e.bound[n]; ok {
		return v
	}
	if e.localsFirst && (!e.inOld || e.oldLocals) && e.lookup != nil {
		if v, ok := e.lookup(n, e.state); ok {
			return v
		}
	}
	if v, ok := e.names[n]; ok {
		return v
	}
	switch n {
	case "nil":
		return Val{T: types.Typ[types.UntypedNil], S: "0"}
	case "true":
		return Val{T: tBool, S: "true"}
	case "false":
		return Val{T: tBool, S: "false"}
	}
	if e.lookup != nil {
		if v, ok := e.lookup(n, e.state); ok {
			return v
		}
	}
	if e.pkg != nil {
		if o := e.pkg.Scope().Lookup(n); o != nil {
			return e.object(o)
		}
	}
	if strings.HasPrefix(n, "$") {
		// ghost scalar
		if g, ok := fc.g.specs.Ghosts[n[1:]]; ok && g.Key == "none" {
			name := "G!" + g.Name
			fc.regArr(name, ghostSort(fc, g.Val))
			return Val{T: ghostType(g.Val), S: e.state.get(name)}
		}
	}
	return e.errorf("unknown identifier %s", n)
}

func ghostSort(fc *FnCtx, v string) string {
	switch v {
	case "bool":
		return "Bool"
	case "str":
		return "Str"
	default:
		return "Int"
	}
}

func ghostType(v string) types.Type {
	switch v {
	case "bool":
		return tBool
	case "ref", "set":
		return types.Typ[types.UnsafePointer]
	case "str":
		return tString
	default:
		return tInt
	}
}

func (e *Env) object(o types.Object) Val {
	fc := e.fc
	switch o := o.(type) {
	case *types.Const:
		if b, ok := constToBig(o.Val()); ok && kindOf(o.Type()) == KInt {
			if bt, ok := o.Type().(*types.Basic); ok && bt.Info()&types.IsUntyped != 0 {
				return Val{T: o.Type(), S: b.String(), Untyped: true}
			}
			return Val{T: o.Type(), S: fc.m.intConst(b, o.Type())}
		}
		if o.Val().Kind() == constant.String {
			return Val{T: o.Type(), S: fc.strLit(constant.StringVal(o.Val()))}
		}
		if o.Val().Kind() == constant.Bool {
			return Val{T: tBool, S: fmt.Sprint(constant.BoolVal(o.Val()))}
		}
	case *types.Var:
		// package-level variable
		return fc.globalVal(e.state, o)
	}
	return e.errorf("unsupported object %s", o.Name())
}

func (e *Env) sel(x *SExpr) Val {
	fc := e.fc
	// qualified identifier pkg.Name ?
	if x.Args[0].Op == "ident" && e.pkg != nil {
		n := x.Args[0].Name
		_, isBound := e.bound[n]
		_, isName := e.names[n]
		isLocal := false
		if e.lookup != nil {
			_, isLocal = e.lookup(n, e.state)
		}
		if !isBound && !isName && !isLocal && e.pkg.Scope().Lookup(n) == nil {
			for _, imp := range e.pkg.Imports() {
				if imp.Name() == n || strings.HasSuffix(imp.Path(), "/"+n) || fc.g.importAlias(n) == imp.Path() {
					if o := imp.Scope().Lookup(x.Name); o != nil {
						return e.object(o)
					}
				}
			}
		}
	}
	base := e.tr(x.Args[0])
	t := base.T
	if t == nil {
		return e.errorf("selector on untyped value")
	}
	// ghost field  x.$f
	if strings.HasPrefix(x.Name, "$") {
		g, ok := fc.g.specs.Ghosts[x.Name[1:]]
		if !ok {
			return e.errorf("unknown ghost field %s", x.Name)
		}
		name := "G!" + g.Name
		fc.regArr(name, "(Array Int "+ghostSort(fc, g.Val)+")")
		return Val{T: ghostType(g.Val), S: sx("select", e.state.get(name), base.S)}
	}
	if kindOf(t) == KStruct && base.Sub != nil {
		st := t.Underlying().(*types.Struct)
		for i := 0; i < st.NumFields(); i++ {
			if st.Field(i).Name() == x.Name {
				return base.Sub[i]
			}
		}
		return e.errorf("no field %s", x.Name)
	}
	var stT types.Type
	if p, ok := t.Underlying().(*types.Pointer); ok {
		stT = p.Elem()
	} else if kindOf(t) == KStruct {
		stT = t // struct ref held in S
	}
	if stT == nil {
		return e.errorf("selector %s on non-struct %s", x.Name, t)
	}
	ref := base.S
	return e.fieldOf(ref, stT, x.Name)
}

// fieldOf loads field name of the struct at ref, looking through embedded structs.
func (e *Env) fieldOf(ref string, stT types.Type, name string) Val {
	fc := e.fc
	st, ok := stT.Underlying().(*types.Struct)
	if !ok {
		return e.errorf("selector %s on non-struct", name)
	}
	for i := 0; i < st.NumFields(); i++ {
		if st.Field(i).Name() == name {
			a := &Addr{Kind: aField, Obj: ref, ST: stT, F: i}
			ft := st.Field(i).Type()
			if kindOf(ft) == KStruct {
				// value is the embedded struct's ref
				return Val{T: ft, S: fc.structRef(a, ft)}
			}
			return fc.load(e.state, a, ft)
		}
	}
	for i := 0; i < st.NumFields(); i++ {
		f := st.Field(i)
		if f.Embedded() {
			ft := f.Type()
			a := &Addr{Kind: aField, Obj: ref, ST: stT, F: i}
			var r string
			var inner types.Type
			if p, ok := ft.Underlying().(*types.Pointer); ok {
				r = fc.load(e.state, a, ft).S
				inner = p.Elem()
			} else if kindOf(ft) == KStruct {
				r = fc.structRef(a, ft)
				inner = ft
			} else {
				continue
			}
			if ist, ok := inner.Underlying().(*types.Struct); ok {
				for j := 0; j < ist.NumFields(); j++ {
					if ist.Field(j).Name() == name {
						return e.fieldOf(r, inner, name)
					}
				}
			}
		}
	}
	return e.errorf("no field %s in %s", name, typeKey(stT))
}

func (e *Env) binary(x *SExpr) Val {
	fc := e.fc
	m := fc.m
	switch x.Name {
	case "==>":
		return Val{T: tBool, S: sImp(e.bool(x.Args[0]), e.bool(x.Args[1]))}
	case "<==>":
		return Val{T: tBool, S: sEq(e.bool(x.Args[0]), e.bool(x.Args[1]))}
	case "&&":
		return Val{T: tBool, S: sAnd(e.bool(x.Args[0]), e.bool(x.Args[1]))}
	case "||":
		return Val{T: tBool, S: sOr(e.bool(x.Args[0]), e.bool(x.Args[1]))}
	}
	a, b := e.unify(e.tr(x.Args[0]), e.tr(x.Args[1]))
	tokOf := map[string]token.Token{"==": token.EQL, "!=": token.NEQ, "<": token.LSS, "<=": token.LEQ, ">": token.GTR, ">=": token.GEQ,
		"+": token.ADD, "-": token.SUB, "*": token.MUL, "/": token.QUO, "%": token.REM, "&": token.AND, "|": token.OR, "^": token.XOR, "<<": token.SHL, ">>": token.SHR, "&^": token.AND_NOT}
	op := tokOf[x.Name]
	switch x.Name {
	case "==", "!=":
		eq := e.equal(a, b)
		if x.Name == "!=" {
			eq = sNot(eq)
		}
		return Val{T: tBool, S: eq}
	case "<", "<=", ">", ">=":
		if kindOf(a.T) == KStr {
			fc.declareFun("strle", "(Str Str) Bool")
			le := func(p, q string) string { return sx("strle", p, q) }
			switch x.Name {
			case "<=":
				return Val{T: tBool, S: le(a.S, b.S)}
			case "<":
				return Val{T: tBool, S: sNot(le(b.S, a.S))}
			case ">=":
				return Val{T: tBool, S: le(b.S, a.S)}
			default:
				return Val{T: tBool, S: sNot(le(a.S, b.S))}
			}
		}
		if kindOf(a.T) != KInt && kindOf(a.T) != KRef {
			return e.errorf("comparison of non-integers in %s", x.String())
		}
		if m.mode == ModeBV && kindOf(a.T) == KInt {
			if wa, _ := intInfo(a.T); true {
				if wb, _ := intInfo(b.T); wa != wb {
					return e.errorf("width mismatch in %s", x.String())
				}
			}
			return Val{T: tBool, S: m.cmp(op, a.S, b.S, a.T)}
		}
		return Val{T: tBool, S: M{ModeInt}.cmp(op, a.S, b.S, a.T)}
	}
	if kindOf(a.T) != KInt {
		return e.errorf("arithmetic on non-integer in %s", x.String())
	}
	if m.mode == ModeBV {
		if x.Name != "<<" && x.Name != ">>" {
			wa, _ := intInfo(a.T)
			wb, _ := intInfo(b.T)
			if wa != wb {
				return e.errorf("width mismatch in %s", x.String())
			}
		}
		s, err := m.binop(op, a.S, b.S, a.T, b.T, func(n, d string) {})
		if err != nil {
			return e.errorf("%v", err)
		}
		return Val{T: a.T, S: s}
	}
	// int mode: mathematical arithmetic
	switch x.Name {
	case "+", "-", "*":
		return Val{T: a.T, S: sx(x.Name, a.S, b.S), Math: true}
	case "/":
		return Val{T: a.T, S: sx("div", a.S, b.S), Math: true}
	case "%":
		return Val{T: a.T, S: sx("mod", a.S, b.S), Math: true}
	}
	s, err := m.binop(op, a.S, b.S, a.T, b.T, func(n, d string) {
		if _, ok := fc.declared[n]; !ok {
			fc.declared[n] = d
			fc.decls = append(fc.decls, d)
		}
	})
	if err != nil {
		return e.errorf("%v", err)
	}
	return Val{T: a.T, S: s}
}

func (e *Env) equal(a, b Val) string {
	ka, kb := kindOf(a.T), kindOf(b.T)
	isNil := func(v Val) bool {
		bt, ok := v.T.(*types.Basic)
		return ok && bt.Kind() == types.UntypedNil
	}
	switch {
	case isNil(b):
		switch ka {
		case KSlice:
			return sEq(a.Sub[0].S, "0")
		case KIface:
			return sEq(a.Sub[0].S, "0")
		default:
			return sEq(a.S, "0")
		}
	case isNil(a):
		return e.equal(b, a)
	}
	if ka != kb && !(ka == KRef || kb == KRef) {
		e.errorf("comparison of different kinds")
		return "false"
	}
	switch ka {
	case KSlice:
		return sAnd(sEq(a.Sub[0].S, b.Sub[0].S), sEq(a.Sub[1].S, b.Sub[1].S), sEq(a.Sub[2].S, b.Sub[2].S), sEq(a.Sub[3].S, b.Sub[3].S))
	case KIface:
		return sAnd(sEq(a.Sub[0].S, b.Sub[0].S), sEq(a.Sub[1].S, b.Sub[1].S))
	case KStruct, KTuple:
		if a.Sub == nil || b.Sub == nil {
			return sEq(a.S, b.S)
		}
		var c []string
		for i := range a.Sub {
			c = append(c, e.equal(a.Sub[i], b.Sub[i]))
		}
		return sAnd(c...)
	}
	if e.fc.m.mode == ModeBV && ka == KInt {
		wa, _ := intInfo(a.T)
		wb, _ := intInfo(b.T)
		if wa != wb {
			e.errorf("width mismatch in equality")
			return "false"
		}
	}
	return sEq(a.S, b.S)
}

func (e *Env) call(x *SExpr) Val {
	fc := e.fc
	m := fc.m
	args := func() []Val {
		var vs []Val
		for _, a := range x.Args {
			vs = append(vs, e.tr(a))
		}
		return vs
	}
	switch x.Name {
	case "len", "cap":
		v := e.tr(x.Args[0])
		switch kindOf(v.T) {
		case KSlice:
			if x.Name == "len" {
				return Val{T: tInt, S: v.Sub[2].S}
			}
			return Val{T: tInt, S: v.Sub[3].S}
		case KStr:
			return Val{T: tInt, S: sx("strlen", v.S)}
		case KRef:
			if _, ok := v.T.Underlying().(*types.Map); ok {
				return Val{T: tInt, S: sx("select", e.state.get(fc.maplenArr(v.S)), v.S)}
			}
		}
		return e.errorf("len of %s", x.Args[0].String())
	case "ite":
		c := e.bool(x.Args[0])
		a, b := e.unify(e.tr(x.Args[1]), e.tr(x.Args[2]))
		if a.Sub != nil {
			return e.errorf("ite on composite")
		}
		if a.Untyped {
			a, b = e.coerce(a, tInt), e.coerce(b, tInt)
		}
		return Val{T: a.T, S: sIte(c, a.S, b.S)}
	case "base":
		v := e.tr(x.Args[0])
		if kindOf(v.T) == KSlice {
			return Val{T: types.Typ[types.UnsafePointer], S: v.Sub[0].S}
		}
		return e.errorf("base of non-slice")
	case "off":
		v := e.tr(x.Args[0])
		if kindOf(v.T) == KSlice {
			return Val{T: tInt, S: v.Sub[1].S}
		}
		return e.errorf("off of non-slice")
	case "row":
		// row(s): the backing array (Array idx elem) of slice s in the current state; only usable as spec function argument
		v := e.tr(x.Args[0])
		if kindOf(v.T) != KSlice {
			return e.errorf("row of non-slice")
		}
		et := v.T.Underlying().(*types.Slice).Elem()
		n := "E!" + typeKey(et)
		fc.regArr(n, "(Array Int (Array "+m.idxSort()+" "+m.scalarSort(et)+"))")
		return Val{T: types.NewArray(et, 0), S: sx("select", e.state.get(n), v.Sub[0].S)}
	case "clean":
		// clean(x): the per-field reset conditions declared with "//@ clean T.f cond"; every field must have one.
		v := e.tr(x.Args[0])
		var stT types.Type
		if p, ok := v.T.Underlying().(*types.Pointer); ok {
			stT = p.Elem()
		} else if kindOf(v.T) == KStruct {
			stT = v.T
		}
		if stT == nil {
			return e.errorf("clean: not a struct")
		}
		return Val{T: tBool, S: e.cleanOf(v.S, stT)}
	case "allzero":
		// allzero(x, f1, f2, ...): every field of *x except the listed ones has its zero value.
		// Generated from the struct's field list, so a field added later is covered automatically.
		v := e.tr(x.Args[0])
		var stT types.Type
		if p, ok := v.T.Underlying().(*types.Pointer); ok {
			stT = p.Elem()
		} else if kindOf(v.T) == KStruct {
			stT = v.T
		}
		if stT == nil {
			return e.errorf("allzero: not a struct")
		}
		skip := map[string]bool{}
		for _, a := range x.Args[1:] {
			if a.Op != "ident" {
				return e.errorf("allzero: field names expected")
			}
			skip[a.Name] = true
		}
		return Val{T: tBool, S: e.allZero(v.S, stT, skip)}
	case "call":
		// call(f, a, ...): value of applying the (side-effect free) closure passed as argument f
		if len(x.Args) < 1 || x.Args[0].Op != "ident" || e.applyClo == nil {
			return e.errorf("call(f, args): f must be a closure argument of the callee")
		}
		var as []Val
		for _, a := range x.Args[1:] {
			as = append(as, e.coerce(e.tr(a), tInt))
		}
		if v, ok := e.applyClo(x.Args[0].Name, as, e.state); ok {
			return v
		}
		return e.errorf("call(%s, ...): not a closure literal at this call site", x.Args[0].Name)
	case "L", "R", "same":
		if e.relL == nil || e.relR == nil || len(x.Args) != 1 {
			return e.errorf("%s(e) is only available in relational clauses", x.Name)
		}
		switch x.Name {
		case "L":
			return e.relL.tr(x.Args[0])
		case "R":
			return e.relR.tr(x.Args[0])
		}
		a, b := e.relL.tr(x.Args[0]), e.relR.tr(x.Args[0])
		return Val{T: tBool, S: e.equal(a, b)}
	case "str":
		// str(b): the string made of the bytes of slice b (what string(b) yields in the current state)
		v := e.tr(x.Args[0])
		if kindOf(v.T) == KStr {
			return v
		}
		if kindOf(v.T) != KSlice {
			return e.errorf("str of non-slice")
		}
		return Val{T: types.Typ[types.String], S: fc.bytesStr(e.state, v)}
	case "haskey", "mapget":
		// haskey(m, k): k is a key of map m; mapget(m, k): the value stored for k (scalar-valued maps)
		if len(x.Args) != 2 {
			return e.errorf("%s(m, k)", x.Name)
		}
		v := e.tr(x.Args[0])
		k := e.tr(x.Args[1])
		dom, val, _, scalarV := fc.mapArrs(v.T, v.S)
		if dom == "" {
			return e.errorf("%s: unsupported map type", x.Name)
		}
		mt := v.T.Underlying().(*types.Map)
		ks := k.S
		if kindOf(mt.Key()) == KInt {
			ks = e.coerce(k, mt.Key()).S
		}
		if x.Name == "haskey" {
			return Val{T: tBool, S: sx("select", sx("select", e.state.get(dom), v.S), ks)}
		}
		_, _ = val, scalarV
		lvs := fc.mapValLeaves(v.T, v.S)
		if lvs == nil {
			return e.errorf("mapget: values of this map type are not modelled")
		}
		arrOf := map[string]string{}
		for _, l := range lvs {
			arrOf[l.path] = l.arr
		}
		// Go semantics: the zero value for an absent key
		has := sx("select", sx("select", e.state.get(dom), v.S), ks)
		zflat := map[string]string{}
		fc.mapValFlatten(fc.zeroVal(mt.Elem()), "", zflat)
		return fc.mapValBuild(mt.Elem(), "", func(path string) string {
			got := sx("select", sx("select", e.state.get(arrOf[path]), v.S), ks)
			if z, ok := zflat[path]; ok {
				return sIte(has, got, z)
			}
			return got
		})
	case "mapdom", "mapval":
		// mapdom(m) / mapval(m): the key set / value table of map m as a whole (for equalities between runs)
		v := e.tr(x.Args[0])
		dom, val, _, scalarV := fc.mapArrs(v.T, v.S)
		if dom == "" {
			return e.errorf("%s: unsupported map type", x.Name)
		}
		if x.Name == "mapdom" {
			return Val{T: types.NewArray(tBool, 0), S: sx("select", e.state.get(dom), v.S)}
		}
		if !scalarV {
			return e.errorf("mapval: values of this map type are not modelled")
		}
		return Val{T: types.NewArray(tInt, 0), S: sx("select", e.state.get(val), v.S)}
	case "prev":
		// prev(e): value of e at the loop head, i.e. before the iteration a step clause describes
		if e.prevSt == nil {
			return e.errorf("prev() is only available in loop step clauses")
		}
		pe := e.with(e.prevSt)
		pe.inOld = true
		if e.lookupPrev != nil {
			pe.lookup = e.lookupPrev
		}
		return pe.tr(x.Args[0])
	case "entry":
		// entry(e): value of e when the loop was entered (only in loop invariants)
		if e.loopPre == nil {
			return e.errorf("entry() is only available in loop invariants")
		}
		ne := e.with(e.loopPre)
		ne.inOld = true
		if e.lookupEntry != nil {
			// loop-carried variables denote their value at loop entry, not the current one
			ne.lookup = e.lookupEntry
		} else {
			ne.localsFirst = false
		}
		return ne.tr(x.Args[0])
	case "deref":
		if x.Args[0].Op == "ident" && e.derefs != nil {
			if f, ok := e.derefs[x.Args[0].Name]; ok {
				return f(e.state)
			}
		}
		return e.errorf("deref(%s): not a pointer argument", x.Args[0].String())
	case "addr":
		// addr(x.f): the pointer value &x.f
		if x.Args[0].Op != "sel" {
			return e.errorf("addr(x.f) expected")
		}
		base := e.tr(x.Args[0].Args[0])
		var stT types.Type
		if p, ok := base.T.Underlying().(*types.Pointer); ok {
			stT = p.Elem()
		} else if kindOf(base.T) == KStruct {
			stT = base.T
		}
		if stT == nil {
			return e.errorf("addr: not a struct")
		}
		st := stT.Underlying().(*types.Struct)
		for i := 0; i < st.NumFields(); i++ {
			if st.Field(i).Name() == x.Args[0].Name {
				ft := st.Field(i).Type()
				if kindOf(ft) == KStruct || kindOf(ft) == KArray {
					return Val{T: types.NewPointer(ft), S: fc.embRef(stT, i, base.S)}
				}
				n := "fptr!" + structName(stT) + "." + st.Field(i).Name()
				fc.declareFun(n, "(Int) Int")
				return Val{T: types.NewPointer(ft), S: sx(sym(n), base.S)}
			}
		}
		return e.errorf("addr: no field %s", x.Args[0].Name)
	case "fieldarr":
		// fieldarr(T.f): the whole field array (ref -> value) in the current state
		if x.Args[0].Op != "sel" || x.Args[0].Args[0].Op != "ident" {
			return e.errorf("fieldarr(T.f)")
		}
		t := fc.g.namedType(x.Args[0].Args[0].Name)
		if t == nil {
			return e.errorf("fieldarr: unknown type %s", x.Args[0].Args[0].Name)
		}
		st, ok := t.Underlying().(*types.Struct)
		if !ok {
			return e.errorf("fieldarr: not a struct")
		}
		for i := 0; i < st.NumFields(); i++ {
			if st.Field(i).Name() == x.Args[0].Name {
				ft := st.Field(i).Type()
				if kindOf(ft) != KInt && kindOf(ft) != KRef && kindOf(ft) != KBool {
					return e.errorf("fieldarr: scalar field expected")
				}
				n, _ := fc.fieldArrName(t, i)
				fc.regArr(n, "(Array Int "+m.scalarSort(ft)+")")
				return Val{T: types.NewArray(ft, 0), S: e.state.get(n)}
			}
		}
		return e.errorf("fieldarr: no such field")
	case "ghostarr":
		if x.Args[0].Op != "ident" {
			return e.errorf("ghostarr(name)")
		}
		g, ok := fc.g.specs.Ghosts[x.Args[0].Name]
		if !ok {
			return e.errorf("unknown ghost %s", x.Args[0].Name)
		}
		name := "G!" + g.Name
		fc.regArr(name, "(Array Int "+ghostSort(fc, g.Val)+")")
		return Val{T: types.NewArray(ghostType(g.Val), 0), S: e.state.get(name)}
	case "row8of", "row64of", "rowStrOf":
		v := e.tr(x.Args[0])
		et := types.Type(tByte)
		if x.Name == "row64of" {
			et = tUint64
		}
		if x.Name == "rowStrOf" {
			et = tString
		}
		n := "E!" + typeKey(et)
		fc.regArr(n, "(Array Int (Array "+m.idxSort()+" "+m.scalarSort(et)+"))")
		return Val{T: types.NewArray(et, 0), S: sx("select", e.state.get(n), v.S)}
	case "typeis":
		// typeis(x, T): dynamic type of interface x is *T / T
		v := e.tr(x.Args[0])
		if kindOf(v.T) == KIface && x.Args[1].Op == "str" {
			// typeis(x, "*bufio.Writer"): by type key
			want := x.Args[1].Name
			for k, id := range fc.g.typeIDs {
				if k == want {
					return Val{T: tBool, S: sEq(v.Sub[0].S, fmt.Sprint(id))}
				}
			}
			id := len(fc.g.typeIDs) + 1
			fc.g.typeIDs[want] = id
			return Val{T: tBool, S: sEq(v.Sub[0].S, fmt.Sprint(id))}
		}
		if kindOf(v.T) != KIface || x.Args[1].Op != "ident" {
			return e.errorf("typeis(iface, TypeName)")
		}
		t := e.typeByName(x.Args[1].Name) // handles ptr_ and package-qualified names (ptr_bytes_DOT_Buffer)
		if t == nil {
			return e.errorf("unknown type %s", x.Args[1].Name)
		}
		return Val{T: tBool, S: sEq(v.Sub[0].S, fc.typeID(t))}
	case "payload":
		v := e.tr(x.Args[0])
		if kindOf(v.T) != KIface {
			return e.errorf("payload(iface)")
		}
		return Val{T: types.Typ[types.UnsafePointer], S: v.Sub[1].S}
	case "fresh":
		// fresh(r): r was allocated during this call
		v := e.tr(x.Args[0])
		if e.old == nil {
			return e.errorf("fresh needs an old state")
		}
		fc.regArr("$top", "Int")
		r := v.S
		if kindOf(v.T) == KSlice {
			r = v.Sub[0].S
		}
		return Val{T: tBool, S: sx(">", r, e.old.get("$top"))}
	}
	if pr, ok := fc.g.specs.Preds[x.Name]; ok {
		if len(pr.Params) != len(x.Args) {
			return e.errorf("%s: wrong number of arguments", x.Name)
		}
		ne := *e
		ne.bound = map[string]Val{}
		for k, v := range e.bound {
			ne.bound[k] = v
		}
		for i, pn := range pr.Params {
			ne.bound[pn] = e.tr(x.Args[i])
		}
		return ne.tr(pr.Body)
	}
	// conversion
	if t := e.typeByName(x.Name); t != nil && len(x.Args) == 1 {
		v := e.tr(x.Args[0])
		if kindOf(t) == KInt {
			if v.Untyped {
				return e.coerce(v, t)
			}
			if kindOf(v.T) == KInt {
				if bt, ok := t.(*types.Basic); ok && bt.Kind() == types.Int && m.mode == ModeInt {
					// in specifications (int mode) "int" is the mathematical integers: int(x) is the value of x
					return Val{T: t, S: v.S, Math: true}
				}
				if v.Math && m.mode == ModeInt {
					return Val{T: t, S: m.wrap(v.S, t)} // exact for any mathematical value
				}
				return Val{T: t, S: m.convInt(v.S, v.T, t)}
			}
			if kindOf(v.T) == KRef && m.mode == ModeInt {
				return Val{T: t, S: v.S} // integer boxed in an interface: the payload is the value
			}
		}
		if kindOf(t) == KRef && (kindOf(v.T) == KRef || kindOf(v.T) == KStruct) {
			return Val{T: t, S: v.S}
		}
		return e.errorf("unsupported conversion %s", x.String())
	}
	// ghost map
	if g, ok := fc.g.specs.Ghosts[x.Name]; ok {
		name := "G!" + g.Name
		vs := args()
		if len(vs) != 1 {
			return e.errorf("ghost %s takes one argument", x.Name)
		}
		ks := "Int"
		if g.Key == "str" {
			ks = "Str"
		}
		fc.regArr(name, "(Array "+ks+" "+ghostSort(fc, g.Val)+")")
		k := vs[0].S
		if kindOf(vs[0].T) == KIface {
			k = vs[0].Sub[1].S
		}
		return Val{T: ghostType(g.Val), S: sx("select", e.state.get(name), k)}
	}
	// spec function
	if sf, ok := fc.g.specs.SpecFuns[x.Name]; ok {
		fc.useSpecFun(sf)
		vs := args()
		if len(vs) != len(sf.Params) {
			return e.errorf("%s: wrong number of arguments", x.Name)
		}
		var as []string
		for i, v := range vs {
			pt := e.typeByName(sf.Params[i].Type)
			if isArrParam(sf.Params[i].Type) {
				as = append(as, v.S)
				continue
			}
			v = e.coerce(v, pt)
			if kindOf(v.T) == KInt && kindOf(pt) == KInt && m.mode == ModeBV {
				wa, _ := intInfo(v.T)
				wb, _ := intInfo(pt)
				if wa != wb {
					return e.errorf("%s: argument %d width mismatch", x.Name, i)
				}
			}
			if kindOf(v.T) == KSlice {
				return e.errorf("%s: slice argument; use row()/off()", x.Name)
			}
			as = append(as, v.S)
		}
		rt := e.typeByName(sf.Ret)
		if rt == nil {
			return e.errorf("%s: unknown return type %s", x.Name, sf.Ret)
		}
		app := sx(sym("sf!"+sf.Name), as...)
		if kindOf(rt) == KInt && fc.m.mode == ModeInt && !strings.Contains(app, "q!") && !fc.ground["sfr:"+app] {
			fc.ground["sfr:"+app] = true
			fc.define(fc.m.inRange(app, rt)) // a spec function of integer type yields a value of that type
		}
		return Val{T: rt, S: app, Math: sf.Body != nil && fc.m.mode == ModeInt}
	}
	// pure Go function
	if fn := fc.g.fnByName[x.Name]; fn != nil {
		if sp := fc.g.specFor(fn); sp != nil && sp.Pure {
			vs := args()
			var as []string
			for i, v := range vs {
				as = append(as, e.coerce(v, fn.Params[i].Type()).S)
			}
			return fc.pureApp(fn, as, 0)
		}
	}
	return e.errorf("unknown function %s", x.Name)
}

func (fc *FnCtx) pureApp(fn *ssa.Function, args []string, res int) Val {
	sig := fn.Signature
	name := fmt.Sprintf("pure!%s!%d", fnName(fn), res)
	var ps []string
	for i := 0; i < sig.Params().Len(); i++ {
		ps = append(ps, fc.m.scalarSort(sig.Params().At(i).Type()))
	}
	rt := sig.Results().At(res).Type()
	if kindOf(rt) == KIface {
		// nil-ness only
		fc.declareFun(name, "("+strings.Join(ps, " ")+") Int")
		return Val{T: rt, Sub: []Val{{T: tRef, S: sx(sym(name), args...)}, {T: tRef, S: sx(sym(name), args...)}}}
	}
	fc.declareFun(name, "("+strings.Join(ps, " ")+") "+fc.m.scalarSort(rt))
	return Val{T: rt, S: sx(sym(name), args...)}
}

func (fc *FnCtx) sfSort(t string) string {
	switch t {
	case "row8":
		return "(Array " + fc.m.idxSort() + " " + fc.m.intSort(tByte) + ")"
	case "row64":
		return "(Array " + fc.m.idxSort() + " " + fc.m.intSort(tUint64) + ")"
	case "rowref":
		return "(Array " + fc.m.idxSort() + " Int)"
	case "rowstr":
		return "(Array " + fc.m.idxSort() + " Str)"
	case "u64arr":
		return "(Array Int " + fc.m.intSort(tUint64) + ")"
	case "refarr", "setarr":
		return "(Array Int Int)"
	}
	e := &Env{fc: fc, pkg: fc.g.pkg.Pkg}
	ty := e.typeByName(t)
	if ty == nil {
		panic("specfun: unknown type " + t)
	}
	return fc.m.scalarSort(ty)
}

func (fc *FnCtx) useSpecFun(sf *SpecFun) {
	name := "sf!" + sf.Name
	if _, ok := fc.declared[name]; ok {
		return
	}
	var ps, pds []string
	for _, p := range sf.Params {
		ps = append(ps, fc.sfSort(p.Type))
		pds = append(pds, fmt.Sprintf("(%s %s)", "q!"+p.Name, fc.sfSort(p.Type)))
	}
	sig := "(" + strings.Join(ps, " ") + ") " + fc.sfSort(sf.Ret)
	modeName := "int"
	if fc.m.mode == ModeBV {
		modeName = "bv"
	}
	if sf.Body == nil || (sf.ModeOf != "" && sf.ModeOf != modeName) {
		fc.declareFun(name, sig)
		if fc.m.mode == ModeInt && len(sf.Params) > 0 {
			if e := (&Env{fc: fc, pkg: fc.g.pkg.Pkg}); true {
				if rt := e.typeByName(sf.Ret); rt != nil && kindOf(rt) == KInt {
					var args []string
					for _, p := range sf.Params {
						args = append(args, "q!"+p.Name)
					}
					app := sx(sym(name), args...)
					fc.defineQ(fmt.Sprintf("(forall (%s) (! %s :pattern (%s)))", strings.Join(pds, " "), fc.m.inRange(app, rt), app))
				}
			}
		}
		return
	}
	fc.declared[name] = sig
	// placeholder so recursive uses resolve
	env := &Env{fc: fc, pkg: fc.g.pkg.Pkg, bound: map[string]Val{}, state: fc.entry, errs: &fc.errs}
	for _, p := range sf.Params {
		if isArrParam(p.Type) {
			env.bound[p.Name] = Val{T: types.NewArray(arrParamElem(p.Type), 0), S: "q!" + p.Name}
		} else {
			env.bound[p.Name] = Val{T: env.typeByName(p.Type), S: "q!" + p.Name}
		}
	}
	body := env.coerce(env.tr(sf.Body), env.typeByName(sf.Ret))
	kw := "define-fun"
	if sf.Rec {
		kw = "define-fun-rec"
	}
	fc.funDefs = append(fc.funDefs, fmt.Sprintf("(%s %s (%s) %s %s)", kw, sym(name), strings.Join(pds, " "), fc.sfSort(sf.Ret), body.S))
}

func (g *Gen) importAlias(n string) string {
	switch n {
	case "segment", "seg":
		return "github.com/blevesearch/scorch_segment_api/v2"
	case "index":
		return "github.com/blevesearch/bleve_index_api"
	case "roaring":
		return "github.com/RoaringBitmap/roaring/v2"
	}
	return ""
}

// globalVal reads a package-level variable.
func (fc *FnCtx) globalVal(st *State, o *types.Var) Val {
	name := "GV!" + shortPkg(o.Pkg().Path()) + "." + o.Name()
	a := &Addr{Kind: aGlobal, Name: name}
	t := o.Type()
	if kindOf(t) == KStruct || kindOf(t) == KArray {
		fc.declareConst(name, "Int")
		return Val{T: t, S: sym(name)}
	}
	for _, l := range fc.leafSorts(t) {
		fc.regArr(name+l[0], l[1])
	}
	stable := fc.g.globalStable(o)
	if stable {
		// constant over the whole execution
		v := fc.buildFromLeaves(t, func(suffix string) string {
			n := name + suffix
			for _, l := range fc.leafSorts(t) {
				if l[0] == suffix {
					fc.declareConst(n, l[1])
				}
			}
			return sym(n)
		})
		if !fc.ground["gv:"+name] {
			fc.ground["gv:"+name] = true
			fc.define(fc.typingFacts(fc.entry, v))
		}
		return v
	}
	return fc.load(st, a, t)
}

func (e *Env) allZero(ref string, stT types.Type, skip map[string]bool) string {
	fc := e.fc
	st := stT.Underlying().(*types.Struct)
	var cs []string
	for i := 0; i < st.NumFields(); i++ {
		f := st.Field(i)
		if skip[f.Name()] {
			continue
		}
		a := &Addr{Kind: aField, Obj: ref, ST: stT, F: i}
		switch kindOf(f.Type()) {
		case KStruct:
			cs = append(cs, e.allZero(fc.structRef(a, f.Type()), f.Type(), nil))
		case KArray:
			// fixed arrays inside structs: not modelled as values
		case KSlice:
			v := fc.load(e.state, a, f.Type())
			cs = append(cs, sEq(v.Sub[0].S, "0"), sEq(v.Sub[2].S, fc.m.intConstI(0, tInt)))
		case KIface:
			v := fc.load(e.state, a, f.Type())
			cs = append(cs, sEq(v.Sub[0].S, "0"))
		default:
			v := fc.load(e.state, a, f.Type())
			cs = append(cs, sEq(v.S, fc.zeroVal(f.Type()).S))
		}
	}
	return sAnd(cs...)
}

func (e *Env) cleanOf(ref string, stT types.Type) string {
	var cs []string
	for _, p := range e.cleanParts(ref, stT) {
		cs = append(cs, p[1])
	}
	return sAnd(cs...)
}

// cleanParts returns (field name, condition) pairs.
func (e *Env) cleanParts(ref string, stT types.Type) [][2]string {
	fc := e.fc
	var out [][2]string
	st := stT.Underlying().(*types.Struct)
	decl := fc.g.specs.Cleans[structName(stT)]
	for i := 0; i < st.NumFields(); i++ {
		var cs []string
		f := st.Field(i)
		cond, ok := decl[f.Name()]
		if !ok {
			e.errorf("clean(%s): field %s has no reset condition (add //@ clean %s.%s ...)", structName(stT), f.Name(), structName(stT), f.Name())
			continue
		}
		a := &Addr{Kind: aField, Obj: ref, ST: stT, F: i}
		kw := cond
		if j := strings.IndexAny(cond, " \t"); j > 0 {
			kw = cond[:j]
		}
		switch kw {
		case "exempt":
			fc.note("reset exemption " + structName(stT) + "." + f.Name() + ": " + strings.TrimSpace(cond[len(kw):]))
		case "zero", "nil":
			switch kindOf(f.Type()) {
			case KStruct:
				cs = append(cs, e.allZero(fc.structRef(a, f.Type()), f.Type(), nil))
			case KSlice:
				v := fc.load(e.state, a, f.Type())
				cs = append(cs, sEq(v.Sub[0].S, "0"))
			case KIface:
				v := fc.load(e.state, a, f.Type())
				cs = append(cs, sEq(v.Sub[0].S, "0"))
			default:
				v := fc.load(e.state, a, f.Type())
				cs = append(cs, sEq(v.S, fc.zeroVal(f.Type()).S))
			}
		case "len0":
			if kindOf(f.Type()) != KSlice {
				e.errorf("clean %s.%s: len0 on non-slice", structName(stT), f.Name())
				continue
			}
			v := fc.load(e.state, a, f.Type())
			cs = append(cs, sEq(v.Sub[2].S, fc.m.intConstI(0, tInt)))
		case "capzero":
			// an emptied slice whose whole capacity holds zero values (so that re-slicing it up exposes nothing stale)
			sl, ok := f.Type().Underlying().(*types.Slice)
			if !ok || (kindOf(sl.Elem()) != KBool && kindOf(sl.Elem()) != KInt) {
				e.errorf("clean %s.%s: capzero needs a slice of scalars", structName(stT), f.Name())
				continue
			}
			v := fc.load(e.state, a, f.Type())
			n := "E!" + typeKey(sl.Elem())
			fc.regArr(n, "(Array Int (Array "+fc.m.idxSort()+" "+fc.m.scalarSort(sl.Elem())+"))")
			q := "q!cz"
			row := sx("select", e.state.get(n), v.Sub[0].S)
			addOp := "+"
			if fc.m.mode == ModeBV {
				addOp = "bvadd"
			}
			cell := sx("select", row, sx(addOp, v.Sub[1].S, q))
			zero := fc.zeroVal(sl.Elem()).S
			cs = append(cs, sEq(v.Sub[2].S, fc.m.intConstI(0, tInt)))
			cs = append(cs, fmt.Sprintf("(forall ((%s %s)) (! (=> (and %s %s) (= %s %s)) :pattern (%s)))", q, fc.m.idxSort(),
				fc.m.cmp(token.LEQ, fc.m.intConstI(0, tInt), q, tInt), fc.m.cmp(token.LSS, q, v.Sub[3].S, tInt), cell, zero, cell))
		case "empty":
			v := fc.load(e.state, a, f.Type())
			fc.regArr("G!maplen", "(Array Int Int)")
			cs = append(cs, sOr(sEq(v.S, "0"), sEq(sx("select", e.state.get("G!maplen"), v.S), "0")))
		case "bufreset":
			// embedded bytes.Buffer: empty after Reset
			bt := f.Type()
			r := fc.structRef(a, bt)
			cs = append(cs, e.with(e.state).bufEmpty(r, bt))
		default:
			e.errorf("clean %s.%s: unknown condition %q", structName(stT), f.Name(), cond)
		}
		if len(cs) > 0 {
			out = append(out, [2]string{f.Name(), sAnd(cs...)})
		}
	}
	return out
}

func (e *Env) bufEmpty(ref string, bt types.Type) string {
	fc := e.fc
	st, ok := bt.Underlying().(*types.Struct)
	if !ok {
		return "true"
	}
	var cs []string
	for i := 0; i < st.NumFields(); i++ {
		f := st.Field(i)
		a := &Addr{Kind: aField, Obj: ref, ST: bt, F: i}
		switch f.Name() {
		case "buf":
			v := fc.load(e.state, a, f.Type())
			cs = append(cs, sEq(v.Sub[2].S, fc.m.intConstI(0, tInt)))
		case "off":
			v := fc.load(e.state, a, f.Type())
			cs = append(cs, sEq(v.S, fc.m.intConstI(0, f.Type())))
		}
	}
	return sAnd(cs...)
}

func isArrParam(t string) bool {
	switch t {
	case "row8", "row64", "rowref", "rowstr", "u64arr", "refarr", "setarr":
		return true
	}
	return false
}

func arrParamElem(t string) types.Type {
	switch t {
	case "row8":
		return tByte
	case "row64", "u64arr":
		return tUint64
	case "rowstr":
		return tString
	}
	return tRef
}
