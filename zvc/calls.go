package main

// Calls: contracts, inlining, builtins, havoc; inferred modifies sets.

import (
	"strconv"
	"os"
	"fmt"
	"go/token"
	"go/types"
	"sort"
	"strings"

	"golang.org/x/tools/go/ssa"
	"golang.org/x/tools/go/ssa/ssautil"
)

type ModSet struct {
	All   bool
	Names map[string]bool
	Pfx   []string
	// parameters whose (function-valued) argument's effects belong to the set; resolved per call site by closureArgMods,
	// and equivalent to All wherever they are not resolved
	ClosureParams []string
}

func (m *ModSet) has(n string) bool {
	if m.Names[n] {
		return true
	}
	for _, p := range m.Pfx {
		if strings.HasPrefix(n, p) {
			return true
		}
	}
	return false
}

func newModSet() *ModSet { return &ModSet{Names: map[string]bool{}} }

func (m *ModSet) add(o *ModSet) {
	if o.All || len(o.ClosureParams) > 0 {
		m.All = true
	}
	for n := range o.Names {
		m.Names[n] = true
	}
	for _, p := range o.Pfx {
		m.addPfx(p)
	}
}

func (m *ModSet) addPfx(p string) {
	for _, q := range m.Pfx {
		if q == p {
			return
		}
	}
	m.Pfx = append(m.Pfx, p)
}

// staticAddrNames: names written by a store through pointer value p (syntactic).
func (g *Gen) staticAddrNames(fc *FnCtx, fn *ssa.Function, p ssa.Value, t types.Type, ms *ModSet) {
	switch x := p.(type) {
	case *ssa.FieldAddr:
		fc.storeNames(&Addr{Kind: aField, ST: pointee(x.X.Type()), F: x.Field}, t, ms.Names)
	case *ssa.IndexAddr:
		fc.storeNames(&Addr{Kind: aElem}, t, ms.Names)
	case *ssa.Global:
		if o, ok := x.Object().(*types.Var); ok {
			name := "GV!" + shortPkg(o.Pkg().Path()) + "." + o.Name()
			if kindOf(t) != KStruct && kindOf(t) != KArray {
				for _, l := range fc.leafSorts(t) {
					fc.regArr(name+l[0], l[1])
					ms.Names[name+l[0]] = true
				}
			}
		}
	case *ssa.Alloc:
		if fc.locals[x] {
			// local cells are tracked by name; find it lazily: mark by alloc
			ms.Names["L?"+x.Name()+"@"+fnName(fn)] = true
			return
		}
		fc.storeNames(&Addr{Kind: aCell}, t, ms.Names)
	case *ssa.FreeVar:
		ms.Names["FV?"+x.Name()] = true
		fc.storeNames(&Addr{Kind: aCell}, t, ms.Names)
	default:
		fc.storeNames(&Addr{Kind: aCell}, t, ms.Names)
	}
}

func (g *Gen) instrMods(fc *FnCtx, fn *ssa.Function, in ssa.Instruction, ms *ModSet) {
	switch x := in.(type) {
	case *ssa.Store:
		g.staticAddrNames(fc, fn, x.Addr, pointee(x.Addr.Type()), ms)
	case *ssa.MapUpdate:
		g.mapModNames(fc, x.Map, ms)
		if mm, ok := x.Map.(*ssa.MakeMap); ok && localMap(mm) {
			ms.Names["L!maplen"] = true
			fc.regArr("L!maplen", "(Array Int Int)")
		} else {
			ms.Names["G!maplen"] = true
			fc.regArr("G!maplen", "(Array Int Int)")
		}
	case *ssa.Alloc, *ssa.MakeSlice, *ssa.MakeMap, *ssa.MakeChan, *ssa.MakeClosure:
		ms.Names["$top"] = true
		fc.regArr("$top", "Int")
		if a, ok := x.(*ssa.Alloc); ok {
			g.allocNames(fc, pointee(a.Type()), ms)
		}
		if mk, ok := x.(*ssa.MakeSlice); ok {
			fc.storeNames(&Addr{Kind: aElem}, mk.Type().Underlying().(*types.Slice).Elem(), ms.Names)
		}
		if mm, ok := x.(*ssa.MakeMap); ok {
			if localMap(mm) {
				ms.Names["L!maplen"] = true
				fc.regArr("L!maplen", "(Array Int Int)")
			} else {
				ms.Names["G!maplen"] = true
				fc.regArr("G!maplen", "(Array Int Int)")
			}
		}
	case *ssa.Select:
		ms.Names["G!chanClosed"] = true
		fc.regArr("G!chanClosed", "(Array Int Bool)")
	case *ssa.RunDefers:
		// deferred calls: accounted at the Defer instruction
	case ssa.CallInstruction:
		ms.add(g.callMods(fc, fn, x.Common()))
		// addresses of scalar fields, elements or variables passed to the callee: the location may be written through
		// the pointer whatever the callee's frame says (mirrors clobberAddrArgs, which does this at the call itself)
		if csp := g.calleeSpec(x.Common()); csp == nil || !csp.Pure {
			for _, a := range x.Common().Args {
				pt := pointee(a.Type())
				if pt == nil || kindOf(pt) == KStruct || kindOf(pt) == KArray {
					continue
				}
				switch a.(type) {
				case *ssa.FieldAddr, *ssa.IndexAddr, *ssa.Alloc, *ssa.FreeVar, *ssa.Global:
					g.staticAddrNames(fc, fn, a, pt, ms)
				}
			}
		}
	}
}

// calleeSpec: the contract of a statically known callee, if any.
func (g *Gen) calleeSpec(c *ssa.CallCommon) *FuncSpec {
	if c.IsInvoke() {
		return g.specs.Funcs[typeKey(c.Value.Type())+"."+c.Method.Name()]
	}
	if f := c.StaticCallee(); f != nil {
		return g.specFor(f)
	}
	return nil
}

func (g *Gen) allocNames(fc *FnCtx, t types.Type, ms *ModSet) {
	switch kindOf(t) {
	case KStruct:
		s := t.Underlying().(*types.Struct)
		for i := 0; i < s.NumFields(); i++ {
			ft := s.Field(i).Type()
			if kindOf(ft) == KStruct {
				g.allocNames(fc, ft, ms)
			} else if kindOf(ft) == KArray {
				fc.storeNames(&Addr{Kind: aElem}, ft.Underlying().(*types.Array).Elem(), ms.Names)
			} else {
				fc.storeNames(&Addr{Kind: aField, ST: t, F: i}, ft, ms.Names)
			}
		}
	case KArray:
		fc.storeNames(&Addr{Kind: aElem}, t.Underlying().(*types.Array).Elem(), ms.Names)
	default:
		fc.storeNames(&Addr{Kind: aCell}, t, ms.Names)
	}
}

func (g *Gen) callMods(fc *FnCtx, caller *ssa.Function, c *ssa.CallCommon) *ModSet {
	ms := newModSet()
	if c.IsInvoke() {
		key := typeKey(c.Value.Type()) + "." + c.Method.Name()
		if sp := g.specs.Funcs[key]; sp != nil {
			g.specMods(fc, sp, ms)
			for _, im := range g.implementers(c) {
				ms.add(g.fnMods(fc, im.fn))
			}
			return ms
		}
		ms.All = true
		return ms
	}
	switch v := c.Value.(type) {
	case *ssa.Builtin:
		switch v.Name() {
		case "append", "copy":
			if len(c.Args) > 0 {
				if sl, ok := c.Args[0].Type().Underlying().(*types.Slice); ok {
					fc.storeNames(&Addr{Kind: aElem}, sl.Elem(), ms.Names)
				}
			}
			ms.Names["$top"] = true
			fc.regArr("$top", "Int")
		case "delete", "clear":
			ms.Names["G!maplen"] = true
			fc.regArr("G!maplen", "(Array Int Int)")
		}
		return ms
	case *ssa.Function:
		return g.closureArgMods(fc, v, c, g.fnMods(fc, v))
	case *ssa.MakeClosure:
		return g.fnMods(fc, v.Fn.(*ssa.Function))
	case *ssa.Parameter:
		// a call through a function-valued parameter that has its own contract (caller.param)
		if caller != nil {
			if sp := g.specs.Funcs[fnName(caller)+"."+v.Name()]; sp != nil && sp.HasMod {
				g.specMods(fc, sp, ms)
				return ms
			}
		}
	}
	ms.All = true
	return ms
}

// closureArgMods resolves the "closure PARAM" entries of callee's modifies clause at one call site: a function
// literal passed for PARAM contributes the set inferred from its body, anything else makes the set unknown.
func (g *Gen) closureArgMods(fc *FnCtx, callee *ssa.Function, c *ssa.CallCommon, ms *ModSet) *ModSet {
	if len(ms.ClosureParams) == 0 {
		return ms
	}
	out := newModSet()
	out.All = ms.All
	for n := range ms.Names {
		out.Names[n] = true
	}
	for _, p := range ms.Pfx {
		out.addPfx(p)
	}
	for _, pn := range ms.ClosureParams {
		found := false
		for i, p := range callee.Params {
			if p.Name() != pn || i >= len(c.Args) {
				continue
			}
			found = true
			av := c.Args[i]
			for {
				// look through conversions between function types
				if ct, ok := av.(*ssa.ChangeType); ok {
					av = ct.X
					continue
				}
				break
			}
			switch a := av.(type) {
			case *ssa.MakeClosure:
				cm := g.closureArgMods(fc, a.Fn.(*ssa.Function), &ssa.CallCommon{}, g.fnMods(fc, a.Fn.(*ssa.Function)))
				if os.Getenv("ZVC_DEBUG_LOOPS") != "" && cm.All {
					cf := a.Fn.(*ssa.Function)
					for _, bb := range cf.Blocks {
						for _, in := range bb.Instrs {
							one := newModSet()
							g.instrMods(fc, cf, in, one)
							if one.All {
								fmt.Fprintf(os.Stderr, "   closure %s ALL from: %s\n", cf.Name(), in.String())
							}
						}
					}
				}
				out.add(cm)
			case *ssa.Function:
				out.add(g.fnMods(fc, a))
			default:
				if os.Getenv("ZVC_DEBUG_LOOPS") != "" {
					fmt.Fprintf(os.Stderr, "   closure arg for %s is %T %s\n", pn, a, a.String())
				}
				out.All = true
			}
		}
		if !found {
			if os.Getenv("ZVC_DEBUG_LOOPS") != "" {
				fmt.Fprintf(os.Stderr, "   closure param %s not found in %s\n", pn, callee.Name())
			}
			out.All = true
		}
	}
	if out.All {
		return out
	}
	return out
}

type pointMod struct {
	names []string
	key   *SExpr
	cond  *SExpr
	text  string
	st    types.Type // struct type and field index when the entry is T.f[key]
	f     int
}

// pointMods: modifies entries of the form NAME[expr] (the array changes at that key only).
// expandStar rewrites "T.*[k]" into one entry per field (nested struct fields keyed by their embedded ref).
func (g *Gen) expandStar(entries []string) []string {
	var out []string
	for _, e := range entries {
		cond := ""
		body := e
		if j := strings.Index(e, " if "); j > 0 {
			cond = e[j:]
			body = strings.TrimSpace(e[:j])
		}
		i := strings.Index(body, ".*[")
		if i < 0 || !strings.HasSuffix(body, "]") {
			out = append(out, e)
			continue
		}
		tn, key := body[:i], body[i+3:len(body)-1]
		t := g.namedType(tn)
		if t == nil {
			out = append(out, e)
			continue
		}
		st, ok := t.Underlying().(*types.Struct)
		if !ok {
			out = append(out, e)
			continue
		}
		for j := 0; j < st.NumFields(); j++ {
			f := st.Field(j)
			switch kindOf(f.Type()) {
			case KStruct:
				inner := typeKey(f.Type())
				out = append(out, g.expandStar([]string{fmt.Sprintf("%s.*[addr(ptr_%s(%s).%s)]%s", inner, strings.ReplaceAll(tn, ".", "_DOT_"), key, f.Name(), cond)})...)
			case KArray:
			default:
				out = append(out, fmt.Sprintf("%s.%s[%s]%s", tn, f.Name(), key, cond))
			}
		}
	}
	return out
}

func (g *Gen) pointMods(fc *FnCtx, sp *FuncSpec) []pointMod {
	var out []pointMod
	entries := g.expandStar(sp.Modifies)
	for _, gs := range sp.GhostSets {
		if gs[1] != "" {
			entries = append(entries, "ghost "+gs[0]+"["+gs[1]+"]")
		}
	}
	for _, e := range entries {
		var cond *SExpr
		full := e
		if j := strings.Index(e, " if "); j > 0 {
			c, err := parseSExpr(strings.TrimSpace(e[j+4:]))
			if err != nil {
				fc.errs = append(fc.errs, "modifies "+e+": "+err.Error())
				continue
			}
			cond = c
			e = strings.TrimSpace(e[:j])
		}
		i := strings.Index(e, "[")
		if i < 0 || !strings.HasSuffix(e, "]") {
			continue
		}
		k, err := parseSExpr(e[i+1 : len(e)-1])
		if err != nil {
			fc.errs = append(fc.errs, "modifies "+e+": "+err.Error())
			continue
		}
		pm := pointMod{names: g.modEntryNames(fc, sp, strings.TrimSpace(e[:i])), key: k, cond: cond, text: full, f: -1}
		if tf := strings.TrimSpace(e[:i]); !strings.HasPrefix(tf, "ghost ") {
			if j := strings.LastIndex(tf, "."); j > 0 {
				if t := g.namedType(tf[:j]); t != nil {
					if stt, ok := t.Underlying().(*types.Struct); ok {
						for x := 0; x < stt.NumFields(); x++ {
							if stt.Field(x).Name() == tf[j+1:] {
								pm.st, pm.f = t, x
							}
						}
					}
				}
			}
		}
		out = append(out, pm)
	}
	return out
}

func (g *Gen) specMods(fc *FnCtx, sp *FuncSpec, ms *ModSet) { g.specModsP(fc, sp, ms, true) }

func (g *Gen) freshMods(fc *FnCtx, sp *FuncSpec) []string {
	var out []string
	for _, e := range sp.Modifies {
		if strings.HasPrefix(e, "new ") {
			out = append(out, g.modEntryNames(fc, sp, strings.TrimSpace(e[4:]))...)
		}
	}
	return out
}

func (g *Gen) specModsP(fc *FnCtx, sp *FuncSpec, ms *ModSet, includePoint bool) {
	for _, e := range g.expandStar(sp.Modifies) {
		if strings.HasPrefix(e, "new ") {
			if !includePoint {
				continue
			}
			e = strings.TrimSpace(e[4:])
		}
		if e == "*" {
			ms.All = true
			continue
		}
		if strings.HasPrefix(e, "closure ") {
			// effects of a function-valued parameter: resolved per call site (closureArgMods); unknown here
			ms.ClosureParams = append(ms.ClosureParams, strings.TrimSpace(e[8:]))
			continue
		}
		if e == "elems(*)" {
			ms.addPfx("E!")
			continue
		}
		if e == "maplen" || e == "maps" {
			ms.addPfx("G!map") // lengths, key sets and values of all (non-local) maps
			continue
		}
		if j := strings.Index(e, " if "); j > 0 {
			e = strings.TrimSpace(e[:j])
		}
		if i := strings.Index(e, "["); i >= 0 && strings.HasSuffix(e, "]") {
			if !includePoint {
				continue
			}
			e = strings.TrimSpace(e[:i])
		}
		names := g.modEntryNames(fc, sp, e)
		for _, n := range names {
			ms.Names[n] = true
		}
	}
}

// fnMods: inferred modifies set of a function (array-name granularity).
func (g *Gen) fnMods(fc *FnCtx, fn *ssa.Function) *ModSet {
	if sp := g.specFor(fn); sp != nil && sp.Model != "" {
		if mf := g.fnByName[sp.Model]; mf != nil {
			return g.fnMods(fc, mf)
		}
	}
	if sp := g.specFor(fn); sp != nil && sp.HasMod {
		ms := newModSet()
		g.specMods(fc, sp, ms)
		g.addGhostSets(fc, sp, ms)
		return ms
	}
	ms := g.bodyMods(fc, fn)
	if sp := g.specFor(fn); sp != nil && (len(sp.GhostSets) > 0 || len(sp.GhostInits) > 0) {
		cp := newModSet()
		cp.add(ms)
		g.addGhostSets(fc, sp, cp)
		return cp
	}
	return ms
}

func (g *Gen) addGhostSets(fc *FnCtx, sp *FuncSpec, ms *ModSet) {
	for _, gi := range sp.GhostInits {
		for _, n := range g.modEntryNames(fc, sp, "ghost "+gi[0]) {
			ms.Names[n] = true
		}
	}
	for _, gs := range sp.GhostSets {
		for _, n := range g.modEntryNames(fc, sp, "ghost "+gs[0]) {
			ms.Names[n] = true
		}
	}
}

// bodyMods: the modifies set inferred from the body (callees by their declared or inferred sets).
func (g *Gen) bodyMods(fc *FnCtx, fn *ssa.Function) *ModSet {
	key := fn
	if ms, ok := fc.modMemo[key]; ok {
		return ms
	}
	ms := newModSet()
	if fc.modBusy[fn] || fn.Blocks == nil || !g.analysable(fn) {
		ms.All = true
		return ms
	}
	fc.modBusy[fn] = true
	for _, b := range fn.Blocks {
		for _, in := range b.Instrs {
			g.instrMods(fc, fn, in, ms)
			if ms.All {
				break
			}
		}
	}
	delete(fc.modBusy, fn)
	fc.modMemo[key] = ms
	return ms
}

// analysable: we look inside zapx functions and a few leaf packages only.
func (g *Gen) analysable(fn *ssa.Function) bool {
	if fn.Pkg == nil {
		if fn.Parent() != nil {
			return g.analysable(fn.Parent())
		}
		return false
	}
	p := fn.Pkg.Pkg.Path()
	return p == zapxPath || p == "encoding/binary" || p == "math"
}

// modEntryNames resolves a modifies entry to array names. Forms: T.f, G:ghost, elems(T) e.g. elems(uint8), cell(T), *
func (g *Gen) modEntryNames(fc *FnCtx, sp *FuncSpec, e string) []string {
	e = strings.TrimSpace(e)
	if strings.HasPrefix(e, "ghost ") {
		n := strings.TrimSpace(e[6:])
		gd := g.specs.Ghosts[n]
		if gd == nil {
			fc.errs = append(fc.errs, "modifies: unknown ghost "+n)
			return nil
		}
		name := "G!" + n
		ks := "Int"
		if gd.Key == "str" {
			ks = "Str"
		}
		if gd.Key == "none" {
			fc.regArr(name, ghostSort(fc, gd.Val))
		} else {
			fc.regArr(name, "(Array "+ks+" "+ghostSort(fc, gd.Val)+")")
		}
		return []string{name}
	}
	if e == "alloc" {
		fc.regArr("$top", "Int")
		return []string{"$top"}
	}
	if e == "maplen" {
		fc.regArr("G!maplen", "(Array Int Int)")
		return []string{"G!maplen"}
	}
	if strings.HasPrefix(e, "elems(") {
		tn := strings.TrimSuffix(strings.TrimPrefix(e, "elems("), ")")
		env := &Env{fc: fc, pkg: g.pkg.Pkg}
		t := env.typeByName(tn)
		if t == nil {
			fc.errs = append(fc.errs, "modifies: unknown type "+tn)
			return nil
		}
		out := map[string]bool{}
		fc.storeNames(&Addr{Kind: aElem}, t, out)
		return sortedKeys(out)
	}
	if strings.HasPrefix(e, "raw ") {
		// an array of the memory model by its own name (cells of types the contract language cannot spell)
		n := strings.TrimSpace(strings.TrimPrefix(e, "raw "))
		if _, ok := fc.sorts[n]; !ok {
			return nil
		}
		return []string{n}
	}
	if strings.HasPrefix(e, "cell(") {
		tn := strings.TrimSuffix(strings.TrimPrefix(e, "cell("), ")")
		env := &Env{fc: fc, pkg: g.pkg.Pkg}
		t := env.typeByName(tn)
		if t == nil {
			fc.errs = append(fc.errs, "modifies: unknown type "+tn)
			return nil
		}
		out := map[string]bool{}
		fc.storeNames(&Addr{Kind: aCell}, t, out)
		return sortedKeys(out)
	}
	if i := strings.LastIndex(e, "."); i > 0 {
		tn, f := e[:i], e[i+1:]
		t := g.namedType(tn)
		if t == nil {
			fc.errs = append(fc.errs, "modifies: unknown type "+tn+" in "+sp.Name)
			return nil
		}
		s, ok := t.Underlying().(*types.Struct)
		if !ok {
			return nil
		}
		for j := 0; j < s.NumFields(); j++ {
			if s.Field(j).Name() == f || f == "*" {
				out := map[string]bool{}
				ft := s.Field(j).Type()
				if kindOf(ft) == KStruct {
					g.allocNames(fc, ft, &ModSet{Names: out})
				} else {
					fc.storeNames(&Addr{Kind: aField, ST: t, F: j}, ft, out)
				}
				if f != "*" {
					return sortedKeys(out)
				}
				defer func(o map[string]bool) {}(out)
			}
		}
		if f == "*" {
			out := map[string]bool{}
			g.allocNames(fc, t, &ModSet{Names: out})
			return sortedKeys(out)
		}
	}
	fc.errs = append(fc.errs, "modifies: cannot resolve "+e+" in "+sp.Name)
	return nil
}

func (g *Gen) namedType(n string) types.Type {
	// Pkg-local or qualified like bytes.Buffer
	if i := strings.LastIndex(n, "."); i > 0 {
		pn, tn := n[:i], n[i+1:]
		for _, p := range g.prog.AllPackages() {
			if p.Pkg.Path() == pn || shortPkg(p.Pkg.Path()) == pn {
				if o := p.Pkg.Scope().Lookup(tn); o != nil {
					return o.Type()
				}
			}
		}
		return nil
	}
	if o := g.pkg.Pkg.Scope().Lookup(n); o != nil {
		if _, ok := o.(*types.TypeName); ok {
			return o.Type()
		}
	}
	return nil
}

func (fr *Frame) resolveModEntry(e string, ms *ModSet, sp *FuncSpec, st *State) {
	if e == "*" {
		ms.All = true
		return
	}
	spx := sp
	if spx == nil {
		spx = fr.fc.spec
	}
	for _, n := range fr.fc.g.modEntryNames(fr.fc, spx, e) {
		ms.Names[n] = true
	}
}

// ---------------------------------------------------------------------------

func (fr *Frame) call(in ssa.Instruction, c *ssa.CallCommon, b *ssa.BasicBlock, st *State, guard string) *State {
	before := fr.fc.siteCount
	nst := fr.call1(in, c, b, st, guard)
	// explicit call-site assumptions of the caller's contract ("assume callee#k : expr", old() = state before the call)
	fc0 := fr.fc
	if fr.isTop && fc0.spec != nil && len(fc0.spec.Assumes) > 0 && fc0.lastSite != "" && fc0.siteCount > before {
		for _, c := range fc0.spec.Assumes {
			if c.Site != fc0.lastSite && c.Site != fc0.lastSiteName+"#*" {
				continue
			}
			env := fr.specEnv(nst, nil, nil)
			env.old = st
			env.localsFirst = true
			env.oldLocals = true
			env.lookup = func(n string, s *State) (Val, bool) { return fr.lookupLocalAt(n, s, b, in) }
			f := env.bool(c.Expr)
			fc0.assume(sImp(guard, f), "explicit assumption after "+c.Site)
			fc0.note("ASSUMED (call-site assumption in the contract of " + fc0.spec.Name + " after " + c.Site + "): " + c.Text)
			c.bound = true
		}
	}
	return nst
}

func (fr *Frame) call1(in ssa.Instruction, c *ssa.CallCommon, b *ssa.BasicBlock, st *State, guard string) *State {
	fc := fr.fc
	var resV ssa.Value
	if v, ok := in.(ssa.Value); ok {
		resV = v
	}
	setRes := func(v Val) {
		if resV != nil {
			fr.vals[resV] = v
		}
	}
	var args []Val
	for _, a := range c.Args {
		args = append(args, fr.val(a, st))
	}
	sig := c.Signature()
	resT := types.Type(sig.Results())
	if sig.Results().Len() == 1 {
		resT = sig.Results().At(0).Type()
	}

	if c.IsInvoke() {
		recv := fr.val(c.Value, st)
		key := typeKey(c.Value.Type()) + "." + c.Method.Name()
		fr.safety("nil", sNot(sEq(recv.Sub[0].S, "0")), b, in)
		if sp := fc.g.specs.Funcs[key]; sp != nil {
			// dynamic dispatch over the implementers that have their own contract; the interface contract covers the rest
			var sts []*State
			var conds []string
			var vals []Val
			rest := guard
			impls := fc.g.implementersL(c, fc.spec != nil && fc.spec.Lemma)
			for _, im := range impls {
				// dynamic type statically known: only that implementer
				if sEq(recv.Sub[0].S, fc.typeID(im.recvT)) == "true" {
					impls = []implRec{im}
					break
				}
			}
			for _, im := range impls {
				is := sEq(recv.Sub[0].S, fc.typeID(im.recvT))
				if is == "false" {
					continue
				}
				gi := sAnd(guard, is)
				rest = sAnd(rest, sNot(is))
				all := append([]Val{{T: im.recvT, S: recv.Sub[1].S}}, args...)
				var r Val
				var st2 *State
				if fr.shouldInline(im.fn, im.sp) && len(findLoops(im.fn)) == 0 {
					st2 = fr.inline(nil, im.fn, nil, all, resT, b, st, gi, func(v Val) { r = v })
				} else {
					r, st2 = fr.applyContract(im.sp, im.fn, fnName(im.fn), im.sp.paramNames(im.fn, im.fn.Signature, false), all, resT, im.fn.Signature, b, st, gi, in)
				}
				sts = append(sts, st2)
				conds = append(conds, is)
				vals = append(vals, r)
			}
			if len(sts) == 1 && conds[0] == "true" {
				setRes(vals[0])
				return sts[0]
			}
			names := sp.paramNames(nil, sig, true)
			all := append([]Val{recv}, args...)
			r, st2 := fr.applyContract(sp, nil, key, names, all, resT, sig, b, st, rest, in)
			if len(sts) == 0 {
				setRes(r)
				return st2
			}
			sts = append(sts, st2)
			conds = append(conds, "true")
			vals = append(vals, r)
			if kindOf(resT) != KTuple || resT.(*types.Tuple).Len() > 0 {
				setRes(fr.nameVal(fr.mergeVals(resT, vals, conds), "dispatch"))
			}
			return fc.mergeStates(sts, conds)
		}
		return fr.havocCall(in, key, args, resT, nil, b, st, guard, setRes)
	}
	switch v := c.Value.(type) {
	case *ssa.Builtin:
		return fr.builtin(in, v, c, args, b, st, guard, setRes)
	case *ssa.Function:
		st2 := fr.staticCall(in, v, nil, args, resT, b, st, guard, setRes)
		return fr.lockInterference(in, v, c, st2, guard)
	case *ssa.MakeClosure:
		return fr.staticCall(in, v.Fn.(*ssa.Function), v, args, resT, b, st, guard, setRes)
	}
	// call of a function value
	key := "funcvalue"
	if sp := fr.funcValueSpec(c.Value); sp != nil {
		names := sp.paramNames(nil, sig, false)
		r, st2 := fr.applyContract(sp, nil, sp.Name, names, args, resT, sig, b, st, guard, in)
		setRes(r)
		return st2
	}
	return fr.havocCall(in, key, args, resT, nil, b, st, guard, setRes)
}

// funcValueSpec: contracts for calls through function-typed parameters, keyed "<func>.<param>".
func (fr *Frame) funcValueSpec(v ssa.Value) *FuncSpec {
	if p, ok := v.(*ssa.Parameter); ok {
		return fr.fc.g.specs.Funcs[fnName(fr.fn)+"."+p.Name()]
	}
	if nt, ok := v.Type().(*types.Named); ok {
		return fr.fc.g.specs.Funcs["functype "+typeKey(nt)]
	}
	return nil
}

func (sp *FuncSpec) paramNames(fn *ssa.Function, sig *types.Signature, withRecv bool) []string {
	if sp.Params != nil {
		return sp.Params
	}
	var names []string
	if fn != nil {
		for _, p := range fn.Params {
			names = append(names, p.Name())
		}
		return names
	}
	if withRecv {
		names = append(names, "this")
	}
	for i := 0; i < sig.Params().Len(); i++ {
		names = append(names, sig.Params().At(i).Name())
	}
	return names
}

func (fr *Frame) shouldInline(fn *ssa.Function, sp *FuncSpec) bool {
	fc := fr.fc
	name := fnName(fn)
	if fr.onStack(fn) || fr.depth > 8 {
		return false
	}
	if fc.spec != nil {
		for _, n := range fc.spec.NoInline {
			if n == name {
				return false
			}
		}
		for _, n := range fc.spec.InlineFns {
			if n == name {
				return true
			}
		}
	}
	if sp != nil {
		return sp.Inline
	}
	if fr.depth >= 3 || fn.Blocks == nil || !fc.g.analysable(fn) {
		return false
	}
	// small loop-free functions without a contract are inlined
	if len(findLoops(fn)) > 0 {
		return false
	}
	n := 0
	for _, b := range fn.Blocks {
		n += len(b.Instrs)
		for _, in := range b.Instrs {
			if _, ok := in.(*ssa.Defer); ok {
				return false
			}
			if _, ok := in.(*ssa.Go); ok {
				return false
			}
		}
	}
	if fn.Recover != nil {
		return false
	}
	return n <= 80 && !fr.onStack(fn)
}

func (fr *Frame) onStack(fn *ssa.Function) bool {
	for f := fr; f != nil; f = f.parent {
		if f.fn == fn {
			return true
		}
	}
	return false
}

func (fr *Frame) staticCall(in ssa.Instruction, fn *ssa.Function, mc *ssa.MakeClosure, args []Val, resT types.Type, b *ssa.BasicBlock, st *State, guard string, setRes func(Val)) *State {
	fc := fr.fc
	sp := fc.g.specFor(fn)
	name := fnName(fn)
	if fr.isTop && fc.spec != nil {
		// `follows B after A`: a call of B counts whether it is inlined, applied by contract or havocked
		for _, c := range fc.spec.Follows {
			if c.Args[0] == name || strings.HasSuffix(name, "."+c.Args[0]) {
				fc.folB[c.Ord] = append(fc.folB[c.Ord], propFlag{block: fc.curBlock, seq: fc.seq, cond: guard, callee: name})
			}
		}
	}
	if sp != nil && sp.Model != "" {
		mf := fc.g.fnByName[sp.Model]
		if mf == nil || mf.Blocks == nil {
			fc.errs = append(fc.errs, "model function "+sp.Model+" for "+name+" not found")
		} else {
			fc.note("library function " + name + " replaced by its Go model " + sp.Model + " (assumed equivalent)")
			return fr.inline(in, mf, nil, args, resT, b, st, guard, setRes)
		}
	}
	if fr.shouldInline(fn, sp) && fn.Blocks != nil && len(findLoops(fn)) == 0 {
		return fr.inline(in, fn, mc, args, resT, b, st, guard, setRes)
	}
	if sp != nil {
		names := sp.paramNames(fn, fn.Signature, false)
		r, st2 := fr.applyContract(sp, fn, name, names, args, resT, fn.Signature, b, st, guard, in)
		setRes(r)
		return fr.havocCaptured(mc, st2, guard)
	}
	var ms *ModSet
	if fn.Blocks != nil && fc.g.analysable(fn) {
		ms = fc.g.fnMods(fc, fn)
	}
	return fr.havocCaptured(mc, fr.havocCall(in, name, args, resT, ms, b, st, guard, setRes), guard)
}

// havocCaptured: a closure that is called without being inlined may have written every variable of the enclosing
// function it captures by reference and stores to (a deferred closure assigning a named result, say). Those variables
// are local cells of the caller (immune to heap havoc), so they are havocked here, under the call's guard.
func (fr *Frame) havocCaptured(mc *ssa.MakeClosure, st *State, guard string) *State {
	if mc == nil {
		return st
	}
	fc := fr.fc
	for _, bnd := range mc.Bindings {
		a, ok := fr.addrs[bnd]
		if !ok || a == nil || a.Kind != aLocal || !closureWrites(mc, bnd, 0) {
			continue
		}
		al, isAlloc := bnd.(*ssa.Alloc)
		if !isAlloc {
			continue
		}
		pt := pointee(al.Type())
		for _, l := range fc.leafSorts(pt) {
			n := a.Name + l[0]
			old := st.get(n)
			st = st.havocSet(map[string]bool{n: true})
			if guard != "true" {
				st = st.setRaw(n, sIte(guard, st.get(n), old))
			}
		}
		fc.note("variable " + al.Comment + " captured and written by a closure called without inlining: unknown after the call")
	}
	return st
}

// inline translates the callee's body in place.
func (fr *Frame) inline(in ssa.Instruction, fn *ssa.Function, mc *ssa.MakeClosure, args []Val, resT types.Type, b *ssa.BasicBlock, st *State, guard string, setRes func(Val)) *State {
	fc := fr.fc
	{
		var pn []string
		for _, p := range fn.Params {
			pn = append(pn, p.Name())
		}
		fr.callSiteAsserts(fnName(fn), pn, args, b, st, guard, in)
	}
	sub := fc.newFrame(fn, fr)
	for i, p := range fn.Params {
		if i < len(args) {
			sub.vals[p] = args[i]
		}
	}
	if ci, ok := in.(ssa.CallInstruction); ok && !ci.Common().IsInvoke() {
		for i, a := range ci.Common().Args {
			if ad, ok := fr.addrs[a]; ok && i < len(fn.Params) {
				sub.addrs[fn.Params[i]] = ad
			}
		}
	}
	if mc != nil {
		owner := fc.cloFrames[mc]
		if owner == nil {
			owner = fr
		}
		for _, bv := range mc.Bindings {
			sub.bindings = append(sub.bindings, owner.val(bv, st))
			if a, ok := owner.addrs[bv]; ok {
				sub.bindAddr = append(sub.bindAddr, a)
			} else if _, isAlloc := bv.(*ssa.Alloc); isAlloc {
				sub.bindAddr = append(sub.bindAddr, &Addr{Kind: aCell, Obj: owner.val(bv, st).S})
			} else if fv, isFV := bv.(*ssa.FreeVar); isFV {
				sub.bindAddr = append(sub.bindAddr, owner.addrOf(fv, st))
			} else {
				sub.bindAddr = append(sub.bindAddr, nil)
			}
		}
	}
	sub.run(st, guard)
	fc.note("inlined body of " + fnName(fn) + " into " + fc.spec.Name)
	if len(sub.rets) == 0 {
		// callee never returns (panics on all paths)
		fc.assume(sNot(guard), "callee "+fnName(fn)+" does not return")
		setRes(fc.freshVal(resT, "noret"))
		return st
	}
	var sts []*State
	var conds []string
	var vals []Val
	for _, r := range sub.rets {
		sts = append(sts, r.state)
		conds = append(conds, r.guard)
		switch len(r.res) {
		case 0:
			vals = append(vals, Val{T: resT})
		case 1:
			vals = append(vals, r.res[0])
		default:
			vals = append(vals, Val{T: resT, Sub: r.res})
		}
	}
	if kindOf(resT) != KTuple || resT.(*types.Tuple).Len() > 0 {
		setRes(fr.nameVal(fr.mergeVals(resT, vals, conds), "inl!"+sanitize(fn.Name())))
	} else {
		setRes(Val{T: resT})
	}
	return fc.mergeStates(sts, conds)
}

func (fr *Frame) havocCall(in ssa.Instruction, name string, args []Val, resT types.Type, ms *ModSet, b *ssa.BasicBlock, st *State, guard string, setRes func(Val)) *State {
	fc := fr.fc
	var pn []string
	if ci, ok := in.(ssa.CallInstruction); ok {
		if f := ci.Common().StaticCallee(); f != nil {
			for _, p := range f.Params {
				pn = append(pn, p.Name())
			}
		}
	}
	fr.callSiteAsserts(name, pn, args, b, st, guard, in)
	res := fc.freshVal(resT, fr.tagStr+"call!"+sanitize(name))
	var nst *State
	if ms != nil && !ms.All {
		set := map[string]bool{}
		for n := range ms.Names {
			set[n] = true
		}
		nst = st.havocSetP(set, ms.Pfx)
		fc.note("call of " + name + " without contract: result unconstrained, inferred frame applied")
	} else {
		nst = st.havocAll(fc.ghostKeep(ms))
		fc.regArr("$top", "Int")
		fc.note("call of " + name + " without contract: result and heap unconstrained; ghost resources framed (callee assumed not to touch pools, locks or files of this activation)")
	}
	if ci, ok := in.(ssa.CallInstruction); ok {
		nst = fr.clobberAddrArgs(ci.Common(), nst)
	}
	fc.assume(sImp(guard, fc.typingFacts(nst, res)), "typing of call result")
	setRes(res)
	fr.recordPropagation(in, name, res, guard)
	fr.recordTolerated(name, res, guard, nst)
	fr.recordFollows(name, nil, res, guard, nst)
	return nst
}

// recordPropagation tracks "a call to a listed callee returned a non-nil error".
func (fr *Frame) recordPropagation(in ssa.Instruction, name string, res Val, guard string) {
	fc := fr.fc
	if !fr.isTop || fc.spec == nil {
		return
	}
	for _, c := range fc.spec.Only {
		hit := false
		for _, f := range c.Args[1:] {
			if f == name || strings.HasSuffix(name, "."+f) {
				hit = true
			}
		}
		if !hit {
			continue
		}
		if errV := errComponent(res); errV != nil {
			fc.onlyFlags[c.Ord] = append(fc.onlyFlags[c.Ord], propFlag{block: fc.curBlock, seq: fc.seq, cond: sAnd(guard, sNot(sEq(errV.Sub[0].S, "0"))), callee: name})
		}
	}
	for _, c := range fc.spec.Props {
		hit := false
		for _, f := range c.Args[1:] {
			if f == name || f == "*" || strings.HasSuffix(name, "."+f) {
				hit = true
			}
		}
		if !hit {
			continue
		}
		// error component = last result of interface type
		var errV *Val
		if kindOf(res.T) == KIface {
			errV = &res
		} else if res.Sub != nil {
			for i := len(res.Sub) - 1; i >= 0; i-- {
				if kindOf(res.Sub[i].T) == KIface {
					errV = &res.Sub[i]
					break
				}
			}
		}
		if errV == nil {
			continue
		}
		fc.propFlags[c.Ord] = append(fc.propFlags[c.Ord], propFlag{block: fc.curBlock, seq: fc.seq, cond: sAnd(guard, sNot(sEq(errV.Sub[0].S, "0"))), callee: name})
	}
}

// recordFollows: bookkeeping for `follows B after A when E`.
func (fr *Frame) recordFollows(name string, sp *FuncSpec, res Val, guard string, st *State) {
	fc := fr.fc
	if !fr.isTop || fc.spec == nil {
		return
	}
	match := func(f string) bool { return f == name || strings.HasSuffix(name, "."+f) }
	for _, c := range fc.spec.Follows {
		if match(c.Args[0]) {
			// (also recorded at static call sites, where inlined callees are seen; a second flag for the same call is harmless)
			fc.folB[c.Ord] = append(fc.folB[c.Ord], propFlag{block: fc.curBlock, seq: fc.seq, cond: guard, callee: name})
		}
		if match(c.Args[1]) {
			env := fr.specEnv(st, nil, nil)
			if sp != nil {
				for i, rn := range sp.Results {
					if rn == "" || rn == "_" {
						continue
					}
					if res.Sub != nil && i < len(res.Sub) && kindOf(res.T) == KTuple {
						env.names["$"+rn] = res.Sub[i]
					} else if i == 0 && len(sp.Results) == 1 {
						env.names["$"+rn] = res
					}
				}
			}
			env.lookup = func(n string, st2 *State) (Val, bool) { return fr.lookupLocalAt(n, st2, fc.curBlock, nil) }
			fc.folA[c.Ord] = append(fc.folA[c.Ord], propFlag{block: fc.curBlock, seq: fc.seq, cond: sAnd(guard, env.bool(c.Expr)), callee: name})
		}
	}
}

// recordTolerated tracks "a call to a listed callee returned the tolerated error value".
func (fr *Frame) recordTolerated(name string, res Val, guard string, st *State) {
	fc := fr.fc
	if !fr.isTop || fc.spec == nil {
		return
	}
	for _, c := range fc.spec.Tols {
		hit := false
		for _, f := range c.Args[1:] {
			if f == name || strings.HasSuffix(name, "."+f) {
				hit = true
			}
		}
		if !hit {
			continue
		}
		var errV *Val
		if kindOf(res.T) == KIface {
			errV = &res
		} else if res.Sub != nil {
			for i := len(res.Sub) - 1; i >= 0; i-- {
				if kindOf(res.Sub[i].T) == KIface {
					errV = &res.Sub[i]
					break
				}
			}
		}
		if errV == nil {
			continue
		}
		env := fr.specEnv(st, nil, nil)
		ev := env.tr(c.Expr)
		fc.tolFlags[c.Ord] = append(fc.tolFlags[c.Ord], propFlag{block: fc.curBlock, seq: fc.seq, cond: sAnd(guard, env.equal(*errV, ev)), callee: name})
	}
}

type propFlag struct {
	block  *ssa.BasicBlock
	seq    int
	cond   string
	callee string
}

// applyContract: assert requires, havoc modifies, assume ensures.
func (fr *Frame) applyContract(sp *FuncSpec, fn *ssa.Function, name string, pnames []string, args []Val, resT types.Type, sig *types.Signature, b *ssa.BasicBlock, st *State, guard string, in ssa.Instruction) (Val, *State) {
	fc := fr.fc
	var beforeCover *Oblig
	if siteCoversFlag && fr.isTop && len(sp.Ensures) > 0 && !fc.relMode && fc.spec != nil {
		// reachability of the call itself (a path that is dead under the caller's own preconditions is not a vacuity
		// introduced by this contract)
		beforeCover = &Oblig{Name: fmt.Sprintf("%s/cover:before#%d@%s", fc.spec.Name, fc.coverN+1, name), Kind: "cover", Cover: true, QFOnly: true, Lazy: true,
			goal: guard, Tags: fc.spec.allTags(), Text: "the call is reachable"}
		fc.addOblig(beforeCover)
	}
	env := &Env{fc: fc, names: map[string]Val{}, state: st, old: st, pkg: fc.g.pkg.Pkg, errs: &fc.errs}
	if fn != nil && fn.Pkg != nil {
		env.pkg = fn.Pkg.Pkg
	}
	for i, n := range pnames {
		if i < len(args) && n != "" && n != "_" {
			env.names[n] = args[i]
		}
	}
	if ci, ok := in.(ssa.CallInstruction); ok {
		cargs := ci.Common().Args
		shift := len(args) - len(cargs) // invoke: receiver is args[0]
		env.derefs = map[string]func(*State) Val{}
		for i, a := range cargs {
			if i+shift >= len(pnames) {
				break
			}
			pt := pointee(a.Type())
			if pt == nil || kindOf(pt) == KStruct {
				continue
			}
			ad := fr.addrOf(a, st)
			pt2 := pt
			env.derefs[pnames[i+shift]] = func(s *State) Val { return fc.load(s, ad, pt2) }
		}
	}
	// closures passed as arguments can be applied in the callee's contract: call(f, x)
	if ci, ok := in.(ssa.CallInstruction); ok && !ci.Common().IsInvoke() {
		cargs := ci.Common().Args
		clos := map[string]*ssa.MakeClosure{}
		for i, a := range cargs {
			if mc, ok := a.(*ssa.MakeClosure); ok && i < len(pnames) {
				clos[pnames[i]] = mc
			}
		}
		if len(clos) > 0 {
			env.applyClo = func(name string, as []Val, s *State) (Val, bool) {
				mc := clos[name]
				if mc == nil {
					return Val{}, false
				}
				cfn := mc.Fn.(*ssa.Function)
				if len(findLoops(cfn)) > 0 || cfn.Signature.Results().Len() != 1 {
					return Val{}, false
				}
				var r Val
				// the closure is evaluated for its value only; its (absent) effects on the state are discarded
				fc.suppress++
				fr.inline(nil, cfn, mc, as, cfn.Signature.Results().At(0).Type(), b, s, "true", func(v Val) { r = v })
				fc.suppress--
				fc.note("closure " + fnName(cfn) + " applied inside the contract of " + name + " (assumed side-effect free)")
				return r, true
			}
		}
	}
	// closure free variables by name
	if mcIn, ok := in.(ssa.CallInstruction); ok {
		if mc, ok := mcIn.Common().Value.(*ssa.MakeClosure); ok {
			owner := fc.cloFrames[mc]
			if owner == nil {
				owner = fr
			}
			cfn := mc.Fn.(*ssa.Function)
			for i, fv := range cfn.FreeVars {
				bv := mc.Bindings[i]
				if a, ok := owner.addrs[bv]; ok {
					env.names[fv.Name()] = fc.load(st, a, pointee(bv.Type()))
				}
			}
		}
	}
	occ := fr.callSiteAsserts(name, pnames, args, b, st, guard, in)
	// requires
	for _, c := range sp.Requires {
		if !fc.modeOK(c) {
			continue
		}
		f := env.bool(c.Expr)
		if c.WF && fc.thin {
			fc.note("thin mode: well-formedness precondition of " + name + " assumed: " + c.Text)
		} else if fc.spec != nil {
			tags := c.Tags
			fc.addOblig(&Oblig{Name: fmt.Sprintf("%s/requires#%d@%s#%d", fc.spec.Name, c.Ord, name, occ), Kind: "requires@call", Tags: unionTags(tags, fc.spec.Tags), goal: sImp(guard, f), Text: name + " requires " + c.Text, Spec: c})
		}
		fc.assume(sImp(guard, f), "callee precondition established")
	}
	// results
	var res Val
	pure := sp.Pure && fn != nil
	if pure {
		var as []string
		ok := true
		for _, a := range args {
			if a.Sub != nil {
				ok = false
			}
			as = append(as, a.S)
		}
		if ok {
			rt := sig.Results()
			if rt.Len() == 1 {
				res = fc.pureApp(fn, as, 0)
			} else {
				res = Val{T: rt}
				for i := 0; i < rt.Len(); i++ {
					res.Sub = append(res.Sub, fc.pureApp(fn, as, i))
				}
			}
		} else {
			pure = false
		}
	}
	if !pure {
		res = fc.freshVal(resT, fr.tagStr+"r!"+sanitize(name))
	}
	// frame
	ms := newModSet()
	if sp.HasMod {
		fc.g.specModsP(fc, sp, ms, false)
		if len(ms.ClosureParams) > 0 {
			if ci, ok := in.(ssa.CallInstruction); ok && fn != nil {
				ms = fc.g.closureArgMods(fc, fn, ci.Common(), ms)
			} else {
				ms.All = true
			}
		}
	} else if fn != nil && fn.Blocks != nil && !sp.Trusted {
		ms = fc.g.fnMods(fc, fn)
	} else if !sp.Trusted {
		ms.All = true
	}
	var nst *State
	if ms.All {
		nst = st.havocAll(fc.ghostKeep(ms))
	} else {
		set := map[string]bool{}
		for n := range ms.Names {
			set[n] = true
		}
		nst = st.havocSetP(set, ms.Pfx)
	}
	if sp.HasMod || len(sp.GhostSets) > 0 {
		for _, n := range fc.g.freshMods(fc, sp) {
			fv := fc.freshName(n + "@nw")
			fc.declareConst(fv, fc.sorts[n])
			fc.defineQ(fmt.Sprintf("(forall ((q!r Int)) (! (=> (<= q!r %s) (= (select %s q!r) (select %s q!r))) :pattern ((select %s q!r))))", st.get("$top"), sym(fv), st.get(n), sym(fv)))
			nst = nst.setRaw(n, sym(fv))
		}
		kenv := *env
		kenv.names = map[string]Val{}
		for k, v := range env.names {
			kenv.names[k] = v
		}
		{
			rn := sp.Results
			if rn == nil {
				for i := 0; i < sig.Results().Len(); i++ {
					rn = append(rn, sig.Results().At(i).Name())
				}
			}
			if sig.Results().Len() == 1 {
				kenv.names["result"] = res
				if len(rn) == 1 && rn[0] != "" {
					kenv.names[rn[0]] = res
				}
			} else {
				for i := 0; i < sig.Results().Len() && i < len(res.Sub); i++ {
					if i < len(rn) && rn[i] != "" && rn[i] != "_" {
						kenv.names[rn[i]] = res.Sub[i]
					}
				}
			}
		}
		for _, gs := range sp.GhostSets {
			if gs[1] == "" {
				if ns := fc.g.modEntryNames(fc, sp, "ghost "+gs[0]); len(ns) == 1 {
					nst = nst.havocSet(map[string]bool{ns[0]: true})
				}
			}
		}
		var refFresh []string
		var typed []func()
		defer func() {
			// references written by the callee exist when it returns; written fields hold well-typed values
			for _, r := range refFresh {
				fc.define(fc.refBelowTop(nst, r))
			}
			for _, f := range typed {
				f()
			}
		}()
		for _, pm := range fc.g.pointMods(fc, sp) {
			kv := kenv.tr(pm.key)
			k := kv.S
			if kindOf(kv.T) == KIface {
				k = kv.Sub[1].S
			}
			if pm.st != nil && pm.f >= 0 {
				pmc, kk := pm, k
				typed = append(typed, func() {
					ft := pmc.st.Underlying().(*types.Struct).Field(pmc.f).Type()
					if kindOf(ft) == KStruct || kindOf(ft) == KArray {
						return
					}
					v := fc.load(nst, &Addr{Kind: aField, Obj: kk, ST: pmc.st, F: pmc.f}, ft)
					fc.define(fc.typingFacts(nst, v))
				})
			}
			for _, n := range pm.names {
				srt := fc.sorts[n]
				// element sort = last component of (Array K V)
				vs := strings.TrimSuffix(srt[strings.Index(srt[7:], " ")+8:], ")")
				fv := fc.freshName(n + "@pt")
				fc.declareConst(fv, vs)
				if fc.refArr[n] {
					refFresh = append(refFresh, sym(fv))
				}
				cur := nst.get(n)
				upd := sx("store", cur, k, sym(fv))
				if pm.cond != nil {
					upd = sIte(kenv.bool(pm.cond), upd, cur)
				}
				nst = nst.store(n, upd)
			}
		}
	}
	fc.assume(sImp(guard, fc.typingFacts(nst, res)), "typing of call result")
	// addresses of fields or locals passed to the callee: those locations may have been written
	if ci, ok := in.(ssa.CallInstruction); ok && !sp.Pure {
		nst = fr.clobberAddrArgs(ci.Common(), nst)
	}
	// ensures
	eenv := &Env{fc: fc, names: map[string]Val{}, state: nst, old: st, pkg: env.pkg, errs: &fc.errs}
	for k, v := range env.names {
		eenv.names[k] = v
	}
	eenv.derefs = env.derefs
	eenv.applyClo = env.applyClo
	rnames := sp.Results
	if rnames == nil {
		for i := 0; i < sig.Results().Len(); i++ {
			rnames = append(rnames, sig.Results().At(i).Name())
		}
	}
	if sig.Results().Len() == 1 {
		eenv.names["result"] = res
		if len(rnames) == 1 && rnames[0] != "" {
			eenv.names[rnames[0]] = res
		}
	} else {
		for i := 0; i < sig.Results().Len() && i < len(res.Sub); i++ {
			eenv.names[fmt.Sprintf("result%d", i)] = res.Sub[i]
			if i < len(rnames) && rnames[i] != "" && rnames[i] != "_" {
				eenv.names[rnames[i]] = res.Sub[i]
			}
		}
	}
	for _, c := range sp.Ensures {
		if !fc.modeOK(c) || c.Local {
			continue
		}
		f := eenv.bool(c.Expr)
		if fc.thin && (strings.Contains(f, "(forall ") || strings.Contains(f, "(exists ")) {
			// thin mode keeps queries quantifier-free: quantified callee postconditions are not used (weaker, still sound)
			f = dropQuantified(f)
			if f == "true" {
				continue
			}
		}
		fc.assumeC(sImp(guard, f), "contract of "+name+": "+c.Text, c, name)
	}
	if sp.Trusted {
		fc.note("assumed contract: " + name)
	}
	if siteCoversFlag && fr.isTop && len(sp.Ensures) > 0 && !fc.relMode {
		// consistency of what has just been assumed: the point after the call must still be reachable under the
		// quantifier-free part of the assumptions (a contract that contradicts the frame applied to it - or the facts
		// the caller already has - would otherwise make everything after the call provable)
		fc.coverN++
		fc.addOblig(&Oblig{Name: fmt.Sprintf("%s/cover:after#%d@%s", fc.spec.Name, fc.coverN, fc.lastSite), Kind: "cover", Cover: true, QFOnly: true, Before: beforeCover,
			goal: guard, Tags: fc.spec.allTags(), Text: "the state after this call is consistent with its contract"})
	}
	fr.recordPropagation(in, name, res, guard)
	fr.recordTolerated(name, res, guard, nst)
	fr.recordFollows(name, sp, res, guard, nst)
	return res, nst
}

func unionTags(a, b []string) []string {
	if len(a) > 0 {
		return a
	}
	return b
}

// lookupLocalAt resolves a local at a program point inside block b (before instruction in).
func (fr *Frame) lookupLocalAt(name string, st *State, b *ssa.BasicBlock, at ssa.Instruction) (Val, bool) {
	// definitions in this block before `at`, latest first
	var best ssa.Value
	for _, in := range b.Instrs {
		if in == at {
			break
		}
		if d, ok := in.(*ssa.DebugRef); ok && !d.IsAddr && d.Object() != nil && d.Object().Name() == name {
			if _, isVar := d.Object().(*types.Var); isVar && !isPkgLevel(d.Object()) {
				best = d.X
			}
		}
	}
	if best != nil {
		return fr.val(best, st), true
	}
	// block head resolution over dominators (including phis of b)
	v, ok := fr.lookupLocal(name, st, b, nil)
	if ok {
		return v, true
	}
	return Val{}, false
}

// ---------------------------------------------------------------------------

func (fr *Frame) builtin(in ssa.Instruction, bi *ssa.Builtin, c *ssa.CallCommon, args []Val, b *ssa.BasicBlock, st *State, guard string, setRes func(Val)) *State {
	fc := fr.fc
	m := fc.m
	z := m.intConstI(0, tInt)
	e := &Env{fc: fc}
	switch bi.Name() {
	case "len", "cap":
		v := args[0]
		switch kindOf(v.T) {
		case KSlice:
			if bi.Name() == "len" {
				setRes(Val{T: tInt, S: v.Sub[2].S})
			} else {
				setRes(Val{T: tInt, S: v.Sub[3].S})
			}
		case KStr:
			setRes(Val{T: tInt, S: sx("strlen", v.S)})
		case KRef:
			if _, ok := v.T.Underlying().(*types.Map); ok {
				r := Val{T: tInt, S: sx("select", st.get(fc.maplenArr(v.S)), v.S)}
				fc.assume(sImp(guard, m.cmp(token.LEQ, z, r.S, tInt)), "map length is non-negative")
				setRes(r)
				return st
			}
			if p, ok := v.T.Underlying().(*types.Pointer); ok {
				if arr, ok := p.Elem().Underlying().(*types.Array); ok {
					setRes(Val{T: tInt, S: m.intConstI(arr.Len(), tInt)})
					return st
				}
			}
			r := fc.freshVal(tInt, "len")
			fc.assume(sImp(guard, m.cmp(token.LEQ, z, r.S, tInt)), "length is non-negative")
			setRes(r)
		default:
			r := fc.freshVal(tInt, "len")
			fc.assume(sImp(guard, m.cmp(token.LEQ, z, r.S, tInt)), "length is non-negative")
			setRes(r)
		}
		return st
	case "append":
		s := args[0]
		et := s.T.Underlying().(*types.Slice).Elem()
		var srcBase, srcOff, n string
		isStr := false
		if kindOf(args[1].T) == KStr {
			isStr = true
			n = sx("strlen", args[1].S)
		} else {
			srcBase, srcOff, n = args[1].Sub[0].S, args[1].Sub[1].S, args[1].Sub[2].S
		}
		newLen := e.idxAdd(s.Sub[2].S, n)
		fits := m.cmp(token.LEQ, newLen, s.Sub[3].S, tInt)
		// fresh backing when it does not fit
		ref, st2 := fc.alloc(st, fr.tagStr+"append!new")
		st = st2
		nc := fc.freshName("append!cap")
		fc.declareConst(nc, m.idxSort())
		fc.define(m.cmp(token.LEQ, newLen, sym(nc), tInt))
		if m.mode == ModeInt {
			fc.define(sx("<=", sym(nc), "4611686018427387904"))
			fc.assume(sImp(guard, sx("<=", newLen, "4611686018427387904")), "append result is addressable")
		}
		isNilRes := sAnd(sEq(s.Sub[0].S, "0"), sEq(n, z)) // append(nil, empty...) stays nil
		rb := sIte(fits, s.Sub[0].S, ref)
		rb = sIte(isNilRes, "0", rb)
		res := Val{T: s.T, Sub: []Val{{T: tRef, S: rb}, {T: tInt, S: sIte(fits, s.Sub[1].S, z)}, {T: tInt, S: newLen}, {T: tInt, S: sIte(fits, s.Sub[3].S, sIte(isNilRes, z, sym(nc)))}}}
		res = fr.nameVal(res, "append")
		// element effects: for all leaves of the element type
		if kindOf(et) == KStruct && !isStr && n == m.intConstI(1, tInt) {
			// append(s, v) of one struct value: the new element (index len(s) of the result) holds v's fields; the
			// prefix of a re-allocated result is not tracked
			src := fc.load(st, &Addr{Kind: aElem, Obj: srcBase, Idx: srcOff, ET: et}, et)
			dst := &Addr{Kind: aElem, Obj: res.Sub[0].S, Idx: e.idxAdd(res.Sub[1].S, s.Sub[2].S), ET: et}
			if guard != "true" {
				old := fc.load(st, dst, et)
				src = fr.mergeVals(et, []Val{src, old}, []string{guard, "true"})
			}
			st = fc.storeVal(st, dst, et, src)
			setRes(res)
			return st
		}
		if kindOf(et) == KStruct || kindOf(et) == KArray {
			fc.note("append of struct elements: element contents not modelled")
			setRes(res)
			return st
		}
		for _, l := range fc.leafSorts(et) {
			an := "E!" + typeKey(et) + l[0]
			fc.regArr(an, "(Array Int (Array "+m.idxSort()+" "+l[1]+"))")
			old := st.get(an)
			nw := fc.freshName(an + "@app")
			fc.declareConst(nw, fc.sorts[an])
			// other rows unchanged; target row: prefix kept, appended part copied
			tb := res.Sub[0].S
			toff := res.Sub[1].S
			q := "q!i"
			var srcElem string
			if isStr {
				fc.declareFun("strbyte", "(Str "+m.idxSort()+") "+m.intSort(tByte))
				srcElem = sx("strbyte", args[1].S, e.idxSub(e.idxSub(q, toff), s.Sub[2].S))
			} else {
				srcElem = sx("select", sx("select", old, srcBase), e.idxAdd(srcOff, e.idxSub(e.idxSub(q, toff), s.Sub[2].S)))
			}
			inPrefix := sAnd(m.cmp(token.LEQ, toff, q, tInt), m.cmp(token.LSS, q, e.idxAdd(toff, s.Sub[2].S), tInt))
			inNew := sAnd(m.cmp(token.LEQ, e.idxAdd(toff, s.Sub[2].S), q, tInt), m.cmp(token.LSS, q, e.idxAdd(toff, newLen), tInt))
			oldElem := sx("select", sx("select", old, s.Sub[0].S), e.idxAdd(s.Sub[1].S, e.idxSub(q, toff)))
			keepElem := sx("select", sx("select", old, tb), q)
			if fc.thin {
				// thin mode: element contents after append are not tracked in general; a prefix of small constant
				// length (args := buf[0:5]; args[0] = ...; args = append(args, more...)) is kept by ground facts
				if k, err := strconv.Atoi(s.Sub[2].S); err == nil && k >= 0 && k <= 8 && m.mode == ModeInt {
					for j := 0; j < k; j++ {
						js := fmt.Sprint(j)
						fc.define(sImp(sNot(sEq(tb, "0")), sEq(sx("select", sx("select", sym(nw), tb), e.idxAdd(toff, js)),
							sx("select", sx("select", old, s.Sub[0].S), e.idxAdd(s.Sub[1].S, js)))))
					}
				}
				// likewise an appended part of small constant length (append(s, v)): the new elements are the source's
				if k, err := strconv.Atoi(n); err == nil && k >= 1 && k <= 8 && m.mode == ModeInt && !isStr {
					for j := 0; j < k; j++ {
						js := fmt.Sprint(j)
						fc.define(sImp(sNot(sEq(tb, "0")), sEq(sx("select", sx("select", sym(nw), tb), e.idxAdd(e.idxAdd(toff, s.Sub[2].S), js)),
							sx("select", sx("select", old, srcBase), e.idxAdd(srcOff, js)))))
					}
				}
				st = st.setRaw(an, sym(nw))
				continue
			}
			rowDef := fmt.Sprintf("(forall ((q!i %s)) (! (= (select (select %s %s) q!i) (ite %s %s (ite %s %s %s))) :pattern ((select (select %s %s) q!i))))",
				m.idxSort(), sym(nw), tb, inNew, srcElem, inPrefix, oldElem, sIte(fits, keepElem, zeroLeaf(fc, et, l[0])), sym(nw), tb)
			others := fmt.Sprintf("(forall ((q!r Int)) (! (=> (not (= q!r %s)) (= (select %s q!r) (select %s q!r))) :pattern ((select %s q!r))))", tb, sym(nw), old, sym(nw))
			fc.defineQ(sImp(sNot(sEq(tb, "0")), rowDef))
			fc.defineQ(others)
			fc.define(sImp(sEq(tb, "0"), sEq(sym(nw), old)))
			st = st.setRaw(an, sym(nw))
		}
		setRes(res)
		return st
	case "copy":
		d, s := args[0], args[1]
		et := d.T.Underlying().(*types.Slice).Elem()
		var sl string
		isStr := kindOf(s.T) == KStr
		if isStr {
			sl = sx("strlen", s.S)
		} else {
			sl = s.Sub[2].S
		}
		n := sIte(m.cmp(token.LSS, d.Sub[2].S, sl, tInt), d.Sub[2].S, sl)
		nn := fc.freshName("copy!n")
		fc.declareConst(nn, m.idxSort())
		fc.define(sEq(sym(nn), n))
		setRes(Val{T: tInt, S: sym(nn)})
		if kindOf(et) == KStruct || kindOf(et) == KArray {
			fc.note("copy of struct elements: element contents not modelled")
			return st
		}
		for _, l := range fc.leafSorts(et) {
			an := "E!" + typeKey(et) + l[0]
			fc.regArr(an, "(Array Int (Array "+m.idxSort()+" "+l[1]+"))")
			old := st.get(an)
			nw := fc.freshName(an + "@cp")
			fc.declareConst(nw, fc.sorts[an])
			q := "q!i"
			var srcElem string
			if isStr {
				fc.declareFun("strbyte", "(Str "+m.idxSort()+") "+m.intSort(tByte))
				srcElem = sx("strbyte", s.S, e.idxSub(q, d.Sub[1].S))
			} else {
				srcElem = sx("select", sx("select", old, s.Sub[0].S), e.idxAdd(s.Sub[1].S, e.idxSub(q, d.Sub[1].S)))
			}
			if fc.thin {
				st = st.setRaw(an, sym(nw)) // thin mode: element contents after copy are not tracked
				continue
			}
			inDst := sAnd(m.cmp(token.LEQ, d.Sub[1].S, q, tInt), m.cmp(token.LSS, q, e.idxAdd(d.Sub[1].S, sym(nn)), tInt))
			rowDef := fmt.Sprintf("(forall ((q!i %s)) (! (= (select (select %s %s) q!i) (ite %s %s (select (select %s %s) q!i))) :pattern ((select (select %s %s) q!i))))",
				m.idxSort(), sym(nw), d.Sub[0].S, inDst, srcElem, old, d.Sub[0].S, sym(nw), d.Sub[0].S)
			others := fmt.Sprintf("(forall ((q!r Int)) (! (=> (not (= q!r %s)) (= (select %s q!r) (select %s q!r))) :pattern ((select %s q!r))))", d.Sub[0].S, sym(nw), old, sym(nw))
			fc.defineQ(rowDef)
			fc.defineQ(others)
			st = st.setRaw(an, sym(nw))
		}
		return st
	case "delete", "clear":
		if kindOf(args[0].T) == KRef {
			arr := fc.maplenArr(args[0].S)
			nl := fc.freshName("maplen")
			fc.declareConst(nl, "Int")
			old := sx("select", st.get(arr), args[0].S)
			fc.define(sAnd(sx("<=", "0", sym(nl)), sx("<=", sym(nl), old)))
			if bi.Name() == "clear" {
				fc.define(sEq(sym(nl), "0"))
			}
			st = st.store(arr, sx("store", st.get(arr), args[0].S, sym(nl)))
			if dom, _, ks, _ := fc.mapArrs(args[0].T, args[0].S); dom != "" {
				if bi.Name() == "clear" {
					st = st.store(dom, sx("store", st.get(dom), args[0].S, sx("(as const (Array "+ks+" Bool))", "false")))
				} else if len(args) > 1 {
					st = st.store(dom, sx("store", st.get(dom), args[0].S, sx("store", sx("select", st.get(dom), args[0].S), args[1].S, "false")))
				}
			}
			return st
		}
		return st
	case "min", "max":
		if len(args) == 2 && kindOf(args[0].T) == KInt {
			lt := m.cmp(token.LSS, args[0].S, args[1].S, args[0].T)
			if bi.Name() == "min" {
				setRes(Val{T: args[0].T, S: sIte(lt, args[0].S, args[1].S)})
			} else {
				setRes(Val{T: args[0].T, S: sIte(lt, args[1].S, args[0].S)})
			}
			return st
		}
	case "close":
		fc.regArr("G!chanClosed", "(Array Int Bool)")
		return st.store("G!chanClosed", sx("store", st.get("G!chanClosed"), args[0].S, "true"))
	case "print", "println", "recover":
		if in.(ssa.Value) != nil {
			setRes(fc.freshVal(in.(ssa.Value).Type(), "bi"))
		}
		return st
	}
	fr.unsupported(in, "builtin "+bi.Name())
	if v, ok := in.(ssa.Value); ok {
		setRes(fc.freshVal(v.Type(), "bi"))
	}
	return st
}

func zeroLeaf(fc *FnCtx, et types.Type, suffix string) string {
	return leavesOf(fc.zeroVal(et))[suffix]
}

func (fc *FnCtx) modeOK(c *Clause) bool {
	if c.Mode == "" {
		return true
	}
	if fc.m.mode == ModeBV {
		return c.Mode == "bv"
	}
	return c.Mode == "int"
}

// clobberAddrArgs: a pointer to a field, element or local passed to a callee may be written through.
func (fr *Frame) clobberAddrArgs(c *ssa.CallCommon, st *State) *State {
	fc := fr.fc
	for _, a := range c.Args {
		ad, ok := fr.addrs[a]
		if !ok {
			continue
		}
		// handing out the address of a guarded field is an access to it (e.g. atomic.AddInt64(&s.refs, 1))
		if in, ok := a.(ssa.Instruction); ok && ad.Kind == aField {
			fr.guardedAccess(ad, in.Block(), in, st, true)
		}
		pt := pointee(a.Type())
		if pt == nil || kindOf(pt) == KStruct || kindOf(pt) == KArray {
			continue
		}
		v := fc.freshVal(pt, "clob")
		st = fc.storeVal(st, ad, pt, v)
	}
	return st
}

type implRec struct {
	fn    *ssa.Function
	sp    *FuncSpec
	recvT types.Type
}

// implementers: zapx methods with a contract that can be the target of this interface call.
func (g *Gen) implementers(c *ssa.CallCommon) []implRec { return g.implementersL(c, false) }

func (g *Gen) implementersL(c *ssa.CallCommon, lemma bool) []implRec {
	iface, ok := c.Value.Type().Underlying().(*types.Interface)
	if !ok {
		return nil
	}
	var out []implRec
	for _, name := range g.specs.Order {
		sp := g.specs.Funcs[name]
		fn := g.fnByName[name]
		if fn == nil || fn.Signature.Recv() == nil || fn.Name() != c.Method.Name() || sp.Trusted || (sp.Harness && !lemma) {
			continue
		}
		rt := fn.Signature.Recv().Type()
		if types.Implements(rt, iface) {
			out = append(out, implRec{fn, sp, rt})
		}
	}
	return out
}

// ghostKeep: ghost resources survive a heap-wide havoc unless the modifies set names them.
func (fc *FnCtx) ghostKeep(ms *ModSet) map[string]bool {
	keep := map[string]bool{}
	for n := range fc.g.specs.Ghosts {
		if ms == nil || !ms.Names["G!"+n] {
			keep["G!"+n] = true
		}
	}
	if ms == nil || !ms.Names["G!chanClosed"] {
		keep["G!chanClosed"] = true
	}
	return keep
}

// callSiteAsserts checks the caller's "assert callee#k : expr" clauses before the k-th call of callee.
// In the expression, $name denotes the argument bound to the callee's parameter name ($arg0.. positionally).
func (fr *Frame) callSiteAsserts(name string, pnames []string, args []Val, b *ssa.BasicBlock, st *State, guard string, in ssa.Instruction) int {
	fc := fr.fc
	fc.callOrd[name]++
	occ := fc.callOrd[name]
	if !fr.isTop || fc.spec == nil {
		return occ
	}
	// ordinals of call sites follow source order, not the order in which blocks happen to be translated
	if o, ok := fc.siteOrd[in]; ok {
		occ = o
	}
	fc.siteCount++
	fc.lastSite = fmt.Sprintf("%s#%d", name, occ)
	fc.lastSiteName = name
	if fc.relMode && fr.relSites != nil {
		args2 := map[string]Val{}
		for i := range args {
			args2[fmt.Sprintf("$arg%d", i)] = args[i]
			if i < len(pnames) && pnames[i] != "" {
				args2["$"+pnames[i]] = args[i]
			}
		}
		fr.relSites[fc.lastSite] = &relPoint{st: st, cond: guard, args: args2, block: b, in: in}
	}
	for _, c := range fc.spec.Asserts {
		if c.Site == fmt.Sprintf("%s#%d", name, occ) || c.Site == name+"#*" {
			if !fc.modeOK(c) {
				continue
			}
			cenv := fr.specEnv(st, nil, nil)
			cenv.localsFirst = true
			dollar := map[string]Val{}
			for i := range args {
				dollar[fmt.Sprintf("$arg%d", i)] = args[i]
				if i < len(pnames) && pnames[i] != "" {
					dollar["$"+pnames[i]] = args[i]
				}
			}
			for k, v := range dollar {
				cenv.names[k] = v
			}
			cenv.lookup = func(n string, st *State) (Val, bool) {
				return fr.lookupLocalAt(n, st, b, in)
			}
			f := cenv.bool(c.Expr)
			fc.addOblig(&Oblig{Name: fmt.Sprintf("%s/assert#%d@%s#%d", fc.spec.Name, c.Ord, name, occ), Kind: "assert", Tags: c.Tags, goal: sImp(guard, f), Text: c.Text, Spec: c})
			c.bound = true
		}
	}
	return occ
}

// dropQuantified weakens a formula by replacing quantified conjuncts of a top-level conjunction with true;
// anything else containing a quantifier is dropped entirely.
func dropQuantified(f string) string {
	if !strings.HasPrefix(f, "(and ") {
		return "true"
	}
	// split top-level arguments of (and ...)
	body := f[5 : len(f)-1]
	var parts []string
	depth, start := 0, 0
	inBar := false
	for i := 0; i < len(body); i++ {
		switch body[i] {
		case '|':
			inBar = !inBar
		case '(':
			if !inBar {
				depth++
			}
		case ')':
			if !inBar {
				depth--
			}
		case ' ':
			if depth == 0 && !inBar {
				parts = append(parts, body[start:i])
				start = i + 1
			}
		}
	}
	parts = append(parts, body[start:])
	var keep []string
	for _, p := range parts {
		if p == "" {
			continue
		}
		if strings.Contains(p, "(forall ") || strings.Contains(p, "(exists ") {
			if strings.HasPrefix(p, "(and ") {
				if q := dropQuantified(p); q != "true" {
					keep = append(keep, q)
				}
			}
			continue
		}
		keep = append(keep, p)
	}
	return sAnd(keep...)
}

// computeSiteOrdinals numbers the calls of each callee in a function by source position.
func (fc *FnCtx) computeSiteOrdinals(fn *ssa.Function) {
	fc.siteOrd = map[ssa.Instruction]int{}
	type site struct {
		in  ssa.Instruction
		pos token.Pos
		idx int
	}
	by := map[string][]site{}
	n := 0
	for _, b := range fn.Blocks {
		for _, in := range b.Instrs {
			ci, ok := in.(ssa.CallInstruction)
			if !ok {
				continue
			}
			n++
			name := fc.siteName(fn, ci.Common())
			by[name] = append(by[name], site{in, in.Pos(), n})
		}
	}
	for _, ss := range by {
		sort.SliceStable(ss, func(i, j int) bool {
			if ss[i].pos != ss[j].pos {
				return ss[i].pos < ss[j].pos
			}
			return ss[i].idx < ss[j].idx
		})
		for i, s := range ss {
			fc.siteOrd[s.in] = i + 1
		}
	}
}

func (fc *FnCtx) siteName(fn *ssa.Function, c *ssa.CallCommon) string {
	if c.IsInvoke() {
		return typeKey(c.Value.Type()) + "." + c.Method.Name()
	}
	switch v := c.Value.(type) {
	case *ssa.Function:
		return fnName(v)
	case *ssa.MakeClosure:
		return fnName(v.Fn.(*ssa.Function))
	case *ssa.Builtin:
		return "builtin " + v.Name()
	case *ssa.Parameter:
		if sp := fc.g.specs.Funcs[fnName(fn)+"."+v.Name()]; sp != nil {
			return sp.Name
		}
	}
	return "funcvalue"
}

func (g *Gen) mapModNames(fc *FnCtx, mv ssa.Value, ms *ModSet) {
	m, ok := mv.Type().Underlying().(*types.Map)
	if !ok {
		return
	}
	switch kindOf(m.Key()) {
	case KInt, KStr, KBool, KRef:
	default:
		return
	}
	for _, pfx := range []string{"G!", "L!"} {
		if mm, ok := mv.(*ssa.MakeMap); ok {
			if localMap(mm) != (pfx == "L!") {
				continue
			}
		} else if pfx == "L!" {
			continue
		}
		ks := fc.m.scalarSort(m.Key())
		dom := pfx + "mapdom!" + typeKey(m.Key())
		fc.regArr(dom, "(Array Int (Array "+ks+" Bool))")
		ms.Names[dom] = true
		ms.addPfx(pfx + "mapval!" + typeKey(m.Key()) + "!" + typeKey(m.Elem()))
	}
}

// lockInterference: between two critical sections of one activation other goroutines may run. When a lock that some
// "guarded T.f by m" declaration names is acquired again after this function released it (a release site reaches the
// acquisition in the control-flow graph), the guarded field of that object - and the contents of the map it holds - take
// unknown values. The first acquisition keeps the entry values: the contracts are sequential specifications, with the
// function's one critical section as the atomic step.
func (fr *Frame) lockInterference(in ssa.Instruction, callee *ssa.Function, c *ssa.CallCommon, st *State, guard string) *State {
	fc := fr.fc
	nm := fnName(callee)
	switch nm {
	case "(*sync.RWMutex).Lock", "(*sync.RWMutex).RLock", "(*sync.Mutex).Lock":
	default:
		return st
	}
	if len(c.Args) != 1 {
		return st
	}
	fa, ok := c.Args[0].(*ssa.FieldAddr)
	if !ok {
		return st
	}
	stT := pointee(fa.X.Type())
	if stT == nil {
		return st
	}
	stru, ok := stT.Underlying().(*types.Struct)
	if !ok {
		return st
	}
	lockName := stru.Field(fa.Field).Name()
	stn := structName(stT)
	if !fr.releasedBefore(in, stn, lockName) {
		return st
	}
	base := fr.val(fa.X, st)
	for _, gd := range fc.g.specs.Guards {
		if gd.Type != stn || gd.Lock != lockName {
			continue
		}
		for i := 0; i < stru.NumFields(); i++ {
			if stru.Field(i).Name() != gd.Field {
				continue
			}
			ft := stru.Field(i).Type()
			ad := &Addr{Kind: aField, Obj: base.S, ST: stT, F: i}
			old := fc.load(st, ad, ft)
			nv := fc.freshVal(ft, "interf")
			if guard != "true" {
				nv = fr.mergeVals(ft, []Val{nv, old}, []string{guard, "true"})
			}
			if _, isMap := ft.Underlying().(*types.Map); isMap && kindOf(ft) == KRef {
				// the contents of the map held before are unknown as well
				hav := func(arr string) {
					srt := fc.arrSort(arr)
					// (Array Int X): replace the row of the old map
					if !strings.HasPrefix(srt, "(Array Int ") {
						return
					}
					inner := strings.TrimSuffix(strings.TrimPrefix(srt, "(Array Int "), ")")
					fn := fc.freshName("interfrow")
					fc.declareConst(fn, inner)
					row := sym(fn)
					if guard != "true" {
						row = sIte(guard, row, sx("select", st.get(arr), old.S))
					}
					st = st.store(arr, sx("store", st.get(arr), old.S, row))
				}
				hav(fc.maplenArr(old.S))
				if dom, val, _, _ := fc.mapArrs(ft, old.S); dom != "" {
					hav(dom)
					if val != "" {
						hav(val)
					}
					for _, l := range fc.mapValLeaves(ft, old.S) {
						hav(l.arr)
					}
				}
				fc.note("lock re-acquisition: the guarded " + gd.Type + "." + gd.Field + " and the contents of its map are havocked (other goroutines ran between the two critical sections)")
			} else {
				fc.note("lock re-acquisition: the guarded " + gd.Type + "." + gd.Field + " is havocked (other goroutines ran between the two critical sections)")
			}
			st = fc.storeVal(st, ad, ft, nv)
		}
	}
	return st
}

// releasedBefore: some Unlock/RUnlock call on the same lock field (by struct type and field name) can reach instruction
// `at` in the control-flow graph of its function.
func (fr *Frame) releasedBefore(at ssa.Instruction, stn, lockName string) bool {
	isRelease := func(in ssa.Instruction) bool {
		cl, ok := in.(*ssa.Call)
		if !ok {
			return false
		}
		f, ok := cl.Call.Value.(*ssa.Function)
		if !ok || len(cl.Call.Args) != 1 {
			return false
		}
		switch fnName(f) {
		case "(*sync.RWMutex).Unlock", "(*sync.RWMutex).RUnlock", "(*sync.Mutex).Unlock":
		default:
			return false
		}
		fa, ok := cl.Call.Args[0].(*ssa.FieldAddr)
		if !ok {
			return false
		}
		t := pointee(fa.X.Type())
		if t == nil {
			return false
		}
		s, ok := t.Underlying().(*types.Struct)
		return ok && structName(t) == stn && s.Field(fa.Field).Name() == lockName
	}
	blk := at.Block()
	for _, in := range blk.Instrs {
		if in == at {
			break
		}
		if isRelease(in) {
			return true
		}
	}
	// blocks that reach blk (including blk itself through a cycle)
	seen := map[*ssa.BasicBlock]bool{}
	work := append([]*ssa.BasicBlock{}, blk.Preds...)
	for len(work) > 0 {
		x := work[len(work)-1]
		work = work[:len(work)-1]
		if seen[x] {
			continue
		}
		seen[x] = true
		for _, in := range x.Instrs {
			if isRelease(in) {
				return true
			}
		}
		work = append(work, x.Preds...)
	}
	return false
}

// errComponent: the last result of interface type.
func errComponent(res Val) *Val {
	if kindOf(res.T) == KIface {
		return &res
	}
	for i := len(res.Sub) - 1; i >= 0; i-- {
		if kindOf(res.Sub[i].T) == KIface {
			return &res.Sub[i]
		}
	}
	return nil
}

// pkgStateAccess: package-level variables of the verified package that fn refers to, directly or through callees and
// closures that have no contract of their own (those with a contract answer for themselves); wr marks the ones that
// are assigned as a whole or whose address escapes into a call.
func (g *Gen) pkgStateAccess(fn *ssa.Function) (acc, wr map[string]bool) {
	acc, wr = map[string]bool{}, map[string]bool{}
	seen := map[*ssa.Function]bool{}
	var scan func(f *ssa.Function, depth int)
	scan = func(f *ssa.Function, depth int) {
		if f == nil || seen[f] || f.Blocks == nil || depth > 6 {
			return
		}
		seen[f] = true
		for _, b := range f.Blocks {
			for _, in := range b.Instrs {
				var ops []*ssa.Value
				ops = in.Operands(ops)
				for _, op := range ops {
					if op == nil || *op == nil {
						continue
					}
					if gl, ok := (*op).(*ssa.Global); ok && gl.Pkg == g.pkg {
						acc[gl.Name()] = true
						switch x := in.(type) {
						case *ssa.Store:
							if x.Addr == gl {
								wr[gl.Name()] = true
							}
						case ssa.CallInstruction:
							wr[gl.Name()] = true
						}
					}
				}
				if mc, ok := in.(*ssa.MakeClosure); ok {
					cf := mc.Fn.(*ssa.Function)
					if _, has := g.specs.Funcs[fnName(cf)]; !has {
						scan(cf, depth+1)
					}
				}
				if ci, ok := in.(ssa.CallInstruction); ok {
					if cal := ci.Common().StaticCallee(); cal != nil && cal.Pkg == g.pkg {
						if _, has := g.specs.Funcs[fnName(cal)]; !has {
							scan(cal, depth+1)
						}
					}
				}
			}
		}
	}
	scan(fn, 0)
	return
}

// inCone: is the named function reachable (static calls, closures, and - for interface calls - every method of the
// verified package with that name) from one of the roots declared for the tag?
func (g *Gen) inCone(tag, name string) bool {
	if g.coneOf == nil {
		g.coneOf = map[string]map[string]bool{}
	}
	if c, ok := g.coneOf[tag]; ok {
		return c[name]
	}
	byMethod := map[string][]*ssa.Function{}
	all := map[string]*ssa.Function{}
	for f := range ssautil.AllFunctions(g.prog) {
		if f.Pkg != g.pkg && !(f.Pkg == nil && f.Parent() != nil) {
			continue
		}
		all[fnName(f)] = f
		if f.Signature.Recv() != nil {
			byMethod[f.Name()] = append(byMethod[f.Name()], f)
		}
	}
	c := map[string]bool{}
	var work []*ssa.Function
	for _, r := range g.specs.Cones[tag] {
		if f := all[r]; f != nil {
			work = append(work, f)
		} else if f := g.fnByName[r]; f != nil {
			work = append(work, f)
		}
	}
	for len(work) > 0 {
		f := work[len(work)-1]
		work = work[:len(work)-1]
		if f == nil || c[fnName(f)] || f.Blocks == nil {
			continue
		}
		c[fnName(f)] = true
		if g.coneFns == nil {
			g.coneFns = map[string][]*ssa.Function{}
		}
		g.coneFns[tag] = append(g.coneFns[tag], f)
		for _, af := range f.AnonFuncs {
			work = append(work, af)
		}
		for _, b := range f.Blocks {
			for _, in := range b.Instrs {
				if u, ok := in.(*ssa.UnOp); ok {
					// a package-level function variable is loaded: whatever the initialiser stored there may be called
					if gl, ok := u.X.(*ssa.Global); ok && gl.Pkg == g.pkg {
						if _, isFn := pointee(gl.Type()).Underlying().(*types.Signature); isFn {
							work = append(work, g.funcsStoredIn(gl)...)
						}
					}
				}
				ci, ok := in.(ssa.CallInstruction)
				if !ok {
					continue
				}
				if ci.Common().IsInvoke() {
					work = append(work, byMethod[ci.Common().Method.Name()]...)
				} else if cal := ci.Common().StaticCallee(); cal != nil && (cal.Pkg == g.pkg || cal.Parent() != nil) {
					work = append(work, cal)
				}
			}
		}
	}
	g.coneOf[tag] = c
	return c[name]
}

// coneAccess: package-level variables touched by any function of the tag's cone (with or without contract).
func (g *Gen) coneAccess(tag string) (acc, wr map[string]bool, where map[string]string) {
	g.inCone(tag, "")
	acc, wr, where = map[string]bool{}, map[string]bool{}, map[string]string{}
	for _, f := range g.coneFns[tag] {
		g.directAccess(f, acc, wr, where)
	}
	return
}

func (g *Gen) directAccess(f *ssa.Function, acc, wr map[string]bool, where map[string]string) {
	for _, b := range f.Blocks {
		for _, in := range b.Instrs {
			var ops []*ssa.Value
			ops = in.Operands(ops)
			for _, op := range ops {
				if op == nil || *op == nil {
					continue
				}
				if gl, ok := (*op).(*ssa.Global); ok && gl.Pkg == g.pkg {
					acc[gl.Name()] = true
					if where != nil && where[gl.Name()] == "" {
						where[gl.Name()] = fnName(f)
					}
					switch x := in.(type) {
					case *ssa.Store:
						if x.Addr == gl {
							wr[gl.Name()] = true
						}
					case ssa.CallInstruction:
						wr[gl.Name()] = true
					}
				}
			}
		}
	}
}

// funcsStoredIn: functions assigned to a package-level function variable by the package initialiser.
func (g *Gen) funcsStoredIn(gl *ssa.Global) []*ssa.Function {
	var out []*ssa.Function
	for _, m := range g.pkg.Members {
		f, ok := m.(*ssa.Function)
		if !ok || f.Name() != "init" || f.Blocks == nil {
			continue
		}
		for _, b := range f.Blocks {
			for _, in := range b.Instrs {
				st, ok := in.(*ssa.Store)
				if !ok || st.Addr != gl {
					continue
				}
				switch v := st.Val.(type) {
				case *ssa.Function:
					out = append(out, v)
				case *ssa.MakeClosure:
					out = append(out, v.Fn.(*ssa.Function))
				}
			}
		}
	}
	return out
}

// autoReadonly: an undeclared package-level variable of scalar, string, function or interface type that no function
// other than the package initialiser assigns is constant-like process state and needs no declaration.
func (g *Gen) autoReadonly(name string) bool {
	m, ok := g.pkg.Members[name]
	if !ok {
		return false
	}
	gl, ok := m.(*ssa.Global)
	if !ok {
		return false
	}
	switch pointee(gl.Type()).Underlying().(type) {
	case *types.Basic, *types.Signature, *types.Interface:
	default:
		return false
	}
	for f := range ssautil.AllFunctions(g.prog) {
		if f.Blocks == nil || (f.Pkg != g.pkg && f.Parent() == nil) || strings.HasPrefix(f.Name(), "init") {
			continue
		}
		for _, b := range f.Blocks {
			for _, in := range b.Instrs {
				switch x := in.(type) {
				case *ssa.Store:
					if x.Addr == gl {
						return false
					}
				case ssa.CallInstruction:
					for _, a := range x.Common().Args {
						if a == gl {
							return false
						}
					}
				}
			}
		}
	}
	return true
}
