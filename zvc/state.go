package main

// Heap/ghost state as a lazily resolved chain of versions.

import (
	"fmt"
	"sort"
	"strings"
)

type stKind int

const (
	stBase stKind = iota
	stStore
	stMerge
	stHavoc
)

type State struct {
	fc    *FnCtx
	kind  stKind
	id    int
	prev  *State
	name  string
	term  string
	preds []*State
	conds []string
	all   bool            // havoc everything except keep
	set   map[string]bool // havoc exactly these (when !all)
	keep  map[string]bool
	pfx   []string // havoc names with these prefixes too
	key   string   // stStore through a known object: the index written
	val   string   // ... and the value written (store forwarding)
	memo  map[string]string
	depth int
}

func (fc *FnCtx) newState(k stKind) *State {
	fc.stateN++
	return &State{fc: fc, kind: k, id: fc.stateN, memo: map[string]string{}}
}

func (fc *FnCtx) baseState() *State { return fc.newState(stBase) }

func (s *State) store(name, term string) *State {
	n := s.fc.newState(stStore)
	n.prev = s
	n.name = name
	// name the new version to keep terms small
	symb := fmt.Sprintf("%s@%d", name, n.id)
	s.fc.declareConst(symb, s.fc.arrSort(name))
	s.fc.define(sEq(sym(symb), term))
	n.term = sym(symb)
	return n
}

// set installs a term as the new version without defining a symbol.
func (s *State) setRaw(name, term string) *State {
	n := s.fc.newState(stStore)
	n.prev = s
	n.name = name
	n.term = term
	return n
}

func (s *State) havocSet(names map[string]bool) *State {
	return s.havocSetP(names, nil)
}

func (s *State) havocSetP(names map[string]bool, pfx []string) *State {
	if len(names) == 0 && len(pfx) == 0 {
		return s
	}
	n := s.fc.newState(stHavoc)
	n.prev = s
	n.set = names
	n.pfx = pfx
	return n
}

func (s *State) havocAll(keep map[string]bool) *State {
	n := s.fc.newState(stHavoc)
	n.prev = s
	n.all = true
	n.keep = keep
	return n
}

func (fc *FnCtx) mergeStates(preds []*State, conds []string) *State {
	if len(preds) == 1 {
		return preds[0]
	}
	same := true
	for _, p := range preds[1:] {
		if p != preds[0] {
			same = false
		}
	}
	if same {
		return preds[0]
	}
	n := fc.newState(stMerge)
	n.preds = preds
	n.conds = conds
	return n
}

func (s *State) get(name string) string {
	// iterative walk with memoisation to avoid deep recursion on long store chains
	var chain []*State
	cur := s
	var res string
	for {
		if v, ok := cur.memo[name]; ok {
			res = v
			break
		}
		done := false
		switch cur.kind {
		case stBase:
			symb := name + "@0"
			cur.fc.declareConst(symb, cur.fc.arrSort(name))
			res = sym(symb)
			done = true
		case stStore:
			if cur.name == name {
				res = cur.term
				done = true
			}
		case stHavoc:
			hit := false
			if cur.all {
				hit = !cur.keep[name] && !cur.fc.isLocalArr(name)
			} else {
				hit = cur.set[name]
				for _, p := range cur.pfx {
					if strings.HasPrefix(name, p) {
						hit = true
					}
				}
			}
			if hit {
				symb := fmt.Sprintf("%s@h%d", name, cur.id)
				cur.fc.declareConst(symb, cur.fc.arrSort(name))
				res = sym(symb)
				done = true
				cur.fc.onHavoc(name, res, cur.prev)
			}
		case stMerge:
			terms := make([]string, len(cur.preds))
			same := true
			for i, p := range cur.preds {
				terms[i] = p.get(name)
				if terms[i] != terms[0] {
					same = false
				}
			}
			if same {
				res = terms[0]
			} else {
				symb := fmt.Sprintf("%s@m%d", name, cur.id)
				cur.fc.declareConst(symb, cur.fc.arrSort(name))
				t := terms[len(terms)-1]
				for i := len(terms) - 2; i >= 0; i-- {
					t = sIte(cur.conds[i], terms[i], t)
				}
				cur.fc.define(sEq(sym(symb), t))
				res = sym(symb)
			}
			done = true
		}
		if done {
			cur.memo[name] = res
			break
		}
		chain = append(chain, cur)
		cur = cur.prev
	}
	for _, c := range chain {
		c.memo[name] = res
	}
	return res
}

func sortedKeys(m map[string]bool) []string {
	var ks []string
	for k := range m {
		ks = append(ks, k)
	}
	sort.Strings(ks)
	return ks
}

func isGhostArr(name string) bool { return strings.HasPrefix(name, "G!") }

// forwarded returns the value most recently stored into array name at index key, if that is syntactically evident
// (the latest node affecting the array is a store at the same index term).
func (s *State) forwarded(name, key string) (string, bool) {
	for cur := s; cur != nil; cur = cur.prev {
		switch cur.kind {
		case stStore:
			if cur.name == name {
				if cur.key != "" && cur.key == key {
					return cur.val, true
				}
				return "", false
			}
		case stHavoc:
			if cur.all {
				if !cur.keep[name] && !cur.fc.isLocalArr(name) {
					return "", false
				}
			} else {
				if cur.set[name] {
					return "", false
				}
				for _, p := range cur.pfx {
					if strings.HasPrefix(name, p) {
						return "", false
					}
				}
			}
		case stMerge, stBase:
			return "", false
		}
	}
	return "", false
}
