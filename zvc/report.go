package main

import (
	"encoding/json"
	"fmt"
	"go/types"
	"os"
	"path/filepath"
	"sort"
	"strings"

	"golang.org/x/tools/go/ssa"
	"golang.org/x/tools/go/ssa/ssautil"
)

type ObligRec struct {
	Name    string            `json:"name"`
	Kind    string            `json:"kind"`
	Fn      string            `json:"fn"`
	Tags    []string          `json:"tags"`
	Status  string            `json:"status"`
	Solver  string            `json:"solver"`
	TimeS   float64           `json:"time_s"`
	Text    string            `json:"text"`
	Verdict string            `json:"verdict"`
	All     map[string]string `json:"all_solvers,omitempty"`
	Model   string            `json:"model,omitempty"`
	QBytes  int               `json:"query_bytes"`
	Mode    string            `json:"mode"`
	Level   string            `json:"level"`
	Dump    string            `json:"dump,omitempty"`
}

type FnRec struct {
	Name        string   `json:"name"`
	Mode        string   `json:"mode"`
	Level       string   `json:"level"`
	Trusted     bool     `json:"trusted"`
	Errors      []string `json:"errors,omitempty"`
	Assumptions []string `json:"assumptions,omitempty"`
	Obligations int      `json:"obligations"`
	Tags        []string `json:"tags"`
}

type Report struct {
	Obligs   []ObligRec `json:"obligations"`
	Funcs    []FnRec    `json:"functions"`
	Errors   []string   `json:"errors"`
	Trusted  []string   `json:"trusted_contracts"`
	Unbound  []string   `json:"unbound_contracts"`
	LoadS    float64    `json:"load_s"`
	WallS    float64    `json:"wall_s"`
	SolverS  float64    `json:"solver_s"`
	Bad      int        `json:"bad"`
	BuildTag string     `json:"build_tags"`
}

func hasTag(tags []string, t string) bool {
	if t == "" {
		return true
	}
	for _, x := range tags {
		if x == t {
			return true
		}
	}
	return false
}

func (g *Gen) runAll(fnFilter, prop, dump string) *Report {
	rep := &Report{BuildTag: g.tagsLbl}
	var fcs []*FnCtx
	names := append([]string(nil), g.specs.Order...)
	for _, name := range names {
		sp := g.specs.Funcs[name]
		if fnFilter != "" && !strings.Contains(name, fnFilter) {
			continue
		}
		if prop != "" && !hasTag(sp.allTags(), prop) {
			continue
		}
		if sp.Trusted {
			rep.Trusted = append(rep.Trusted, name)
			continue
		}
		fn := g.fnByName[name]
		if fn == nil || fn.Blocks == nil {
			if sp.Optional {
				continue
			}
			rep.Unbound = append(rep.Unbound, name)
			rep.Errors = append(rep.Errors, fmt.Sprintf("contract %s (%s:%d) does not bind to a function with a body", name, sp.File, sp.Line))
			continue
		}
		fc := func() (fc *FnCtx) {
			defer func() {
				if r := recover(); r != nil {
					rep.Errors = append(rep.Errors, fmt.Sprintf("%s: generator panic: %v", name, r))
					if g.verbose {
						panic(r)
					}
					fc = nil
				}
			}()
			return g.verifyFunction(fn, sp)
		}()
		if fc == nil {
			continue
		}
		fcs = append(fcs, fc)
	}
	g.discharge(fcs, func(o *Oblig) bool { return hasTag(o.Tags, prop) })
	for _, fc := range fcs {
		fr := FnRec{Name: fc.spec.Name, Mode: fc.spec.Mode, Level: fc.spec.Level, Errors: fc.errs, Tags: fc.spec.allTags()}
		for a := range fc.assumpt {
			fr.Assumptions = append(fr.Assumptions, a)
		}
		sort.Strings(fr.Assumptions)
		for _, e := range fc.errs {
			rep.Errors = append(rep.Errors, fc.spec.Name+": "+e)
		}
		for _, o := range fc.obligs {
			if o.Result == nil {
				continue
			}
			fr.Obligations++
			r := ObligRec{Name: o.Name, Kind: o.Kind, Fn: o.Fn, Tags: o.Tags, Status: o.Status, Solver: o.Result.Solver, TimeS: o.Result.Time, Text: o.Text,
				Verdict: o.Result.Verdict, All: o.Result.All, QBytes: len(o.Query), Mode: fc.spec.Mode, Level: fc.spec.Level}
			rep.SolverS += o.Result.Time
			bad := o.Status == "failed" || o.Status == "undecided" || o.Status == "cover-vacuous"
			if bad {
				rep.Bad++
				r.Model = trimModel(o.Result.Model)
			}
			if dump != "" && (bad || os.Getenv("ZVC_DUMP_ALL") != "") {
				os.MkdirAll(dump, 0755)
				p := filepath.Join(dump, sanitize(o.Name)+".smt2")
				os.WriteFile(p, []byte(o.Query), 0644)
				r.Dump = p
			}
			rep.Obligs = append(rep.Obligs, r)
		}
		rep.Funcs = append(rep.Funcs, fr)
	}
	rep.Bad += len(rep.Errors)
	return rep
}

func trimModel(m string) string {
	if len(m) > 20000 {
		return m[:20000] + "\n...truncated"
	}
	return m
}

func (r *Report) print(verbose bool) {
	counts := map[string]int{}
	for _, o := range r.Obligs {
		counts[o.Status]++
		if verbose || (o.Status != "discharged" && o.Status != "cover-ok" && o.Status != "cover-ok-qf") {
			fmt.Printf("%-12s %-8s %6.2fs %s   -- %s\n", o.Status, o.Solver, o.TimeS, o.Name, o.Text)
		}
	}
	for _, e := range r.Errors {
		fmt.Println("ERROR:", e)
	}
	var ks []string
	for k := range counts {
		ks = append(ks, k)
	}
	sort.Strings(ks)
	fmt.Printf("functions=%d obligations=%d", len(r.Funcs), len(r.Obligs))
	for _, k := range ks {
		fmt.Printf(" %s=%d", k, counts[k])
	}
	fmt.Printf(" errors=%d load=%.1fs wall=%.1fs solver=%.1fs\n", len(r.Errors), r.LoadS, r.WallS, r.SolverS)
}

func (r *Report) writeJSON(path string) {
	b, _ := json.MarshalIndent(r, "", " ")
	os.WriteFile(path, b, 0644)
}

// ---------------------------------------------------------------------------

// computeUnstableGlobals: a package-level variable is stable when nothing outside package initialisation stores to it
// and its address is not taken.
func (g *Gen) computeUnstableGlobals() {
	g.unstable = map[string]bool{}
	for fn := range ssautil.AllFunctions(g.prog) {
		if fn.Blocks == nil {
			continue
		}
		isInit := fn.Name() == "init" || strings.HasPrefix(fn.Name(), "init#") || (fn.Parent() != nil && fn.Parent().Name() == "init")
		for _, b := range fn.Blocks {
			for _, in := range b.Instrs {
				var ops [16]*ssa.Value
				for _, op := range in.Operands(ops[:0]) {
					gl, ok := (*op).(*ssa.Global)
					if !ok {
						continue
					}
					switch x := in.(type) {
					case *ssa.UnOp:
						continue // load
					case *ssa.Store:
						if x.Addr == gl && isInit {
							continue
						}
					case *ssa.DebugRef:
						continue
					case *ssa.FieldAddr, *ssa.IndexAddr:
						if isInit {
							continue
						}
					}
					g.unstable[gl.String()] = true
				}
			}
		}
	}
}

func (g *Gen) globalStable(o *types.Var) bool {
	key := o.Pkg().Path() + "." + o.Name()
	return !g.unstable[key]
}
