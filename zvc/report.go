package main

import (
	"crypto/sha256"
	"encoding/hex"
	"encoding/json"
	"os/exec"
	"sync"
	"fmt"
	"go/types"
	"os"
	"path/filepath"
	"sort"
	"strings"

	"golang.org/x/tools/go/ssa"
	"golang.org/x/tools/go/ssa/ssautil"
)

type ObligRec struct {
	Name    string            `json:"name"`
	Kind    string            `json:"kind"`
	Fn      string            `json:"fn"`
	Tags    []string          `json:"tags"`
	Status  string            `json:"status"`
	Solver  string            `json:"solver"`
	TimeS   float64           `json:"time_s"`
	Text    string            `json:"text"`
	Verdict string            `json:"verdict"`
	All     map[string]string `json:"all_solvers,omitempty"`
	Model   string            `json:"model,omitempty"`
	QBytes  int               `json:"query_bytes"`
	Mode    string            `json:"mode"`
	Level   string            `json:"level"`
	Dump    string            `json:"dump,omitempty"`
	GoClause string           `json:"go_clause,omitempty"` // the clause as a Go boolean expression over parameter/result names, when it has such a form
}

type ParamRec struct {
	Name string   `json:"name"`
	Type string   `json:"type"`
	Syms []string `json:"syms"` // SMT symbols: scalar -> [s]; slice -> [base, off, len, cap]
}

type FnRec struct {
	GoName      string     `json:"go_name"`
	Recv        string     `json:"recv,omitempty"`
	Lemma       bool       `json:"lemma"`
	Params      []ParamRec `json:"params"`
	Results     []string   `json:"results"`
	ResultNames []string   `json:"result_names"`
	EnsuresText []string   `json:"ensures_text"`
	Name        string     `json:"name"`
	Mode        string   `json:"mode"`
	Level       string   `json:"level"`
	Trusted     bool     `json:"trusted"`
	Errors      []string `json:"errors,omitempty"`
	Assumptions []string `json:"assumptions,omitempty"`
	Obligations int      `json:"obligations"`
	Tags        []string `json:"tags"`
}

type Report struct {
	Obligs   []ObligRec `json:"obligations"`
	Funcs    []FnRec    `json:"functions"`
	Errors   []string   `json:"errors"`
	Trusted  []string   `json:"trusted_contracts"`
	Unbound  []string   `json:"unbound_contracts"`
	LoadS    float64    `json:"load_s"`
	WallS    float64    `json:"wall_s"`
	SolverS  float64    `json:"solver_s"`
	Bad      int        `json:"bad"`
	BuildTag string     `json:"build_tags"`
}

func hasTag(tags []string, t string) bool {
	if t == "" {
		return true
	}
	for _, x := range tags {
		if x == t {
			return true
		}
	}
	return false
}

// inheritedTags: a contract that a function tagged P relies on (static callee under contract, closure, inlined
// callee) is part of P's argument, so all of its obligations are checked for P as well.
func (g *Gen) inheritedTags() map[string]map[string]bool {
	inh := map[string]map[string]bool{}
	uses := map[string][]string{}
	for _, name := range g.specs.Order {
		sp := g.specs.Funcs[name]
		inh[name] = map[string]bool{}
		for _, t := range sp.allTags() {
			inh[name][t] = true
		}
		fn := g.fnByName[name]
		if fn == nil || fn.Blocks == nil || sp.Level == "thin" {
			continue // thin drivers use many contracts loosely; their callees carry explicit tags
		}
		seen := map[*ssa.Function]bool{}
		var scan func(f *ssa.Function, depth int)
		scan = func(f *ssa.Function, depth int) {
			if f == nil || seen[f] || f.Blocks == nil || depth > 4 {
				return
			}
			seen[f] = true
			for _, b := range f.Blocks {
				for _, in := range b.Instrs {
					if mc, ok := in.(*ssa.MakeClosure); ok {
						cf := mc.Fn.(*ssa.Function)
						if _, has := g.specs.Funcs[fnName(cf)]; has {
							uses[name] = append(uses[name], fnName(cf))
						} else {
							scan(cf, depth+1)
						}
					}
					ci, ok := in.(ssa.CallInstruction)
					if !ok {
						continue
					}
					if ci.Common().IsInvoke() {
						for _, im := range g.implementersL(ci.Common(), true) {
							uses[name] = append(uses[name], fnName(im.fn))
						}
						continue
					}
					if cal := ci.Common().StaticCallee(); cal != nil {
						cn := fnName(cal)
						if csp, has := g.specs.Funcs[cn]; has {
							uses[name] = append(uses[name], cn)
							if csp.Model != "" {
								uses[name] = append(uses[name], csp.Model)
							}
						} else if g.analysable(cal) {
							scan(cal, depth+1) // possibly inlined
						}
					}
				}
			}
		}
		scan(fn, 0)
	}
	g.viaUse = map[string]map[string]bool{}
	for changed := true; changed; {
		changed = false
		for caller, cs := range uses {
			for _, c := range cs {
				if inh[c] == nil {
					continue
				}
				if g.viaUse[c] == nil {
					g.viaUse[c] = map[string]bool{}
				}
				for t := range inh[caller] {
					if !inh[c][t] {
						inh[c][t] = true
						changed = true
					}
					if !g.viaUse[c][t] {
						g.viaUse[c][t] = true
						changed = true
					}
				}
			}
		}
	}
	return inh
}

func (g *Gen) runAll(fnFilter, prop, dump string) *Report {
	rep := &Report{BuildTag: g.tagsLbl}
	inh := g.inheritedTags()
	var fcs []*FnCtx
	names := append([]string(nil), g.specs.Order...)
	for _, name := range names {
		sp := g.specs.Funcs[name]
		if fnFilter != "" && !strings.Contains(name, fnFilter) {
			continue
		}
		// every function under contract is translated for every property: an obligation belongs to a property through
		// its clause's tags, and a call-site precondition carries the tags of the callee's clause, so a caller that is
		// itself tagged otherwise must still be checked against it (modularity: callers against callee contracts)
		_ = inh
		if sp.Trusted {
			rep.Trusted = append(rep.Trusted, name)
			continue
		}
		fn := g.fnByName[name]
		if fn == nil || fn.Blocks == nil {
			if sp.Optional {
				continue
			}
			rep.Unbound = append(rep.Unbound, name)
			rep.Errors = append(rep.Errors, fmt.Sprintf("contract %s (%s:%d) does not bind to a function with a body", name, sp.File, sp.Line))
			continue
		}
		fc := func() (fc *FnCtx) {
			defer func() {
				if r := recover(); r != nil {
					rep.Errors = append(rep.Errors, fmt.Sprintf("%s: generator panic: %v", name, r))
					if g.verbose {
						panic(r)
					}
					fc = nil
				}
			}()
			return g.verifyFunction(fn, sp)
		}()
		if fc == nil {
			continue
		}
		fcs = append(fcs, fc)
		if sp.Relational {
			rfc := func() (rfc *FnCtx) {
				defer func() {
					if r := recover(); r != nil {
						rep.Errors = append(rep.Errors, fmt.Sprintf("%s: generator panic in relational pass: %v", name, r))
						if g.verbose {
							panic(r)
						}
						rfc = nil
					}
				}()
				return g.verifyRelational(fn, sp)
			}()
			if rfc != nil {
				fcs = append(fcs, rfc)
			}
		}
	}
	g.discharge(fcs, func(o *Oblig) bool {
		if hasTag(o.Tags, prop) {
			return true
		}
		// the function is part of prop's argument only through a caller: all its obligations count
		if g.viaUse[o.Fn][prop] {
			o.Tags = append(append([]string(nil), o.Tags...), prop)
			return true
		}
		return false
	})
	if g.depsOut != "" {
		g.depsAudit(fcs)
	}
	for _, fc := range fcs {
		fr := FnRec{Name: fc.spec.Name, Mode: fc.spec.Mode, Level: fc.spec.Level, Errors: fc.errs, Tags: fc.spec.allTags(), GoName: fc.fn.Name(), Lemma: fc.spec.Lemma}
		if fc.fn.Signature.Recv() != nil {
			fr.Recv = fc.fn.Signature.Recv().Type().String()
		}
		for _, p := range fc.fn.Params {
			pr := ParamRec{Name: p.Name(), Type: types.TypeString(p.Type(), func(pk *types.Package) string { return "" })}
			if v, ok := fc.top.vals[p]; ok {
				if v.Sub != nil {
					for _, sv := range v.Sub {
						pr.Syms = append(pr.Syms, sv.S)
					}
				} else {
					pr.Syms = []string{v.S}
				}
			}
			fr.Params = append(fr.Params, pr)
		}
		for i := 0; i < fc.fn.Signature.Results().Len(); i++ {
			fr.Results = append(fr.Results, fc.fn.Signature.Results().At(i).Type().String())
		}
		for _, c := range fc.spec.Ensures {
			fr.EnsuresText = append(fr.EnsuresText, c.Text)
		}
		fr.ResultNames = fc.spec.Results
		if fr.ResultNames == nil {
			for i := 0; i < fc.fn.Signature.Results().Len(); i++ {
				fr.ResultNames = append(fr.ResultNames, fc.fn.Signature.Results().At(i).Name())
			}
		}
		for a := range fc.assumpt {
			fr.Assumptions = append(fr.Assumptions, a)
		}
		sort.Strings(fr.Assumptions)
		for _, e := range fc.errs {
			rep.Errors = append(rep.Errors, fc.spec.Name+": "+e)
		}
		for _, o := range fc.obligs {
			if o.Result == nil {
				continue
			}
			fr.Obligations++
			r := ObligRec{Name: o.Name, Kind: o.Kind, Fn: o.Fn, Tags: o.Tags, Status: o.Status, Solver: o.Result.Solver, TimeS: o.Result.Time, Text: o.Text,
				Verdict: o.Result.Verdict, All: o.Result.All, QBytes: len(o.Query), Mode: fc.spec.Mode, Level: fc.spec.Level}
			if o.Spec != nil && o.Spec.Expr != nil && o.Kind == "ensures" {
				if gs, ok := goExpr(o.Spec.Expr, g); ok {
					r.GoClause = gs
				}
			}
			rep.SolverS += o.Result.Time
			bad := o.Status == "failed" || o.Status == "undecided" || o.Status == "cover-vacuous"
			if bad {
				rep.Bad++
				r.Model = trimModel(o.Result.Model)
			}
			if dump != "" && (bad || os.Getenv("ZVC_DUMP_ALL") != "") {
				os.MkdirAll(dump, 0755)
				p := filepath.Join(dump, sanitize(o.Name)+".smt2")
				os.WriteFile(p, []byte(o.Query), 0644)
				r.Dump = p
			}
			rep.Obligs = append(rep.Obligs, r)
		}
		rep.Funcs = append(rep.Funcs, fr)
	}
	rep.Bad += len(rep.Errors)
	return rep
}

func trimModel(m string) string {
	if len(m) > 20000 {
		return m[:20000] + "\n...truncated"
	}
	return m
}

func (r *Report) print(verbose bool) {
	counts := map[string]int{}
	for _, o := range r.Obligs {
		counts[o.Status]++
		if verbose || (o.Status != "discharged" && o.Status != "cover-ok" && o.Status != "cover-ok-qf") {
			fmt.Printf("%-12s %-8s %6.2fs %s   -- %s\n", o.Status, o.Solver, o.TimeS, o.Name, o.Text)
		}
	}
	for _, e := range r.Errors {
		fmt.Println("ERROR:", e)
	}
	var ks []string
	for k := range counts {
		ks = append(ks, k)
	}
	sort.Strings(ks)
	fmt.Printf("functions=%d obligations=%d", len(r.Funcs), len(r.Obligs))
	for _, k := range ks {
		fmt.Printf(" %s=%d", k, counts[k])
	}
	fmt.Printf(" errors=%d load=%.1fs wall=%.1fs solver=%.1fs\n", len(r.Errors), r.LoadS, r.WallS, r.SolverS)
}

func (r *Report) writeJSON(path string) {
	b, _ := json.MarshalIndent(r, "", " ")
	os.WriteFile(path, b, 0644)
}

// ---------------------------------------------------------------------------

// computeUnstableGlobals: a package-level variable is stable when nothing outside package initialisation stores to it
// and its address is not taken.
func (g *Gen) computeUnstableGlobals() {
	g.unstable = map[string]bool{}
	for fn := range ssautil.AllFunctions(g.prog) {
		if fn.Blocks == nil {
			continue
		}
		isInit := fn.Name() == "init" || strings.HasPrefix(fn.Name(), "init#") || (fn.Parent() != nil && fn.Parent().Name() == "init")
		for _, b := range fn.Blocks {
			for _, in := range b.Instrs {
				var ops [16]*ssa.Value
				for _, op := range in.Operands(ops[:0]) {
					gl, ok := (*op).(*ssa.Global)
					if !ok {
						continue
					}
					switch x := in.(type) {
					case *ssa.UnOp:
						continue // load
					case *ssa.Store:
						if x.Addr == gl && isInit {
							continue
						}
					case *ssa.DebugRef:
						continue
					case *ssa.FieldAddr, *ssa.IndexAddr:
						if isInit {
							continue
						}
					}
					g.unstable[gl.String()] = true
				}
			}
		}
	}
}

func (g *Gen) globalStable(o *types.Var) bool {
	key := o.Pkg().Path() + "." + o.Name()
	return !g.unstable[key]
}

// goExpr renders a spec expression as a Go boolean/integer expression when it only uses parameters, results,
// package-level constants, Go operators and spec functions that have an executable twin (verifSpec_<name>).
func goExpr(e *SExpr, g *Gen) (string, bool) {
	switch e.Op {
	case "lit":
		return e.Name, true
	case "ident":
		if strings.HasPrefix(e.Name, "$") {
			return "", false
		}
		return e.Name, true
	case "unary":
		x, ok := goExpr(e.Args[0], g)
		return "(" + e.Name + x + ")", ok
	case "binary":
		a, ok1 := goExpr(e.Args[0], g)
		b, ok2 := goExpr(e.Args[1], g)
		if !ok1 || !ok2 {
			return "", false
		}
		switch e.Name {
		case "==>":
			return "(!(" + a + ") || (" + b + "))", true
		case "<==>":
			return "((" + a + ") == (" + b + "))", true
		}
		return "(" + a + " " + e.Name + " " + b + ")", true
	case "call":
		switch e.Name {
		case "len", "cap", "int", "uint", "uint8", "uint16", "uint32", "uint64", "int8", "int16", "int32", "int64", "byte":
			if len(e.Args) != 1 {
				return "", false
			}
			x, ok := goExpr(e.Args[0], g)
			return e.Name + "(" + x + ")", ok
		}
		if sf, ok := g.specs.SpecFuns[e.Name]; ok {
			for _, p := range sf.Params {
				if isArrParam(p.Type) {
					return "", false
				}
			}
			if g.pkg.Pkg.Scope().Lookup("verifSpec_"+e.Name) == nil {
				return "", false
			}
			var as []string
			for _, a := range e.Args {
				x, ok := goExpr(a, g)
				if !ok {
					return "", false
				}
				as = append(as, x)
			}
			return "verifSpec_" + e.Name + "(" + strings.Join(as, ", ") + ")", true
		}
		return "", false
	}
	return "", false
}

// depsAudit: for every discharged proof obligation, ask z3 for an unsat core over the contract-derived assumptions
// (callee postconditions, own preconditions, loop invariants) and report the clauses a proof tagged with property P
// rests on that are not themselves tagged P (a change breaking such a clause would be reported under another
// property only).
func (g *Gen) depsAudit(fcs []*FnCtx) {
	type depRec struct {
		Owner   string   `json:"owner"`
		Kind    string   `json:"kind"`
		Text    string   `json:"text"`
		Tags    []string `json:"tags"`
		Missing []string `json:"missing"`
		Line    int      `json:"line"`
	}
	type oRec struct {
		Oblig string   `json:"obligation"`
		Tags  []string `json:"tags"`
		Core  string   `json:"core"`
		Deps  []depRec `json:"deps"`
	}
	var mu sync.Mutex
	var out []oRec
	var wg sync.WaitGroup
	sem := make(chan struct{}, 12)
	for _, fc := range fcs {
		for _, o := range fc.obligs {
			if o.Status != "discharged" || o.Cover || len(o.Tags) == 0 {
				continue
			}
			fc, o := fc, o
			wg.Add(1)
			go func() {
				defer wg.Done()
				sem <- struct{}{}
				defer func() { <-sem }()
				q, names := fc.coreQuery(o)
				if len(names) == 0 {
					return
				}
				h := sha256.Sum256([]byte(q))
				f := filepath.Join(scratchDir, "core-"+hex.EncodeToString(h[:8])+".smt2")
				os.WriteFile(f, []byte(q), 0644)
				defer os.Remove(f)
				cmd := exec.Command("z3-new", "-T:20", f)
				b, _ := cmd.CombinedOutput()
				txt := string(b)
				rec := oRec{Oblig: o.Name, Tags: o.Tags}
				lines := strings.SplitN(txt, "\n", 2)
				rec.Core = strings.TrimSpace(lines[0])
				if rec.Core == "unsat" && len(lines) > 1 {
					core := strings.NewReplacer("(", " ", ")", " ").Replace(lines[1])
					for _, nm := range strings.Fields(core) {
						a := names[nm]
						if a == nil {
							continue
						}
						tg := a.cl.Tags
						var miss []string
						for _, t := range o.Tags {
							if !hasTag(tg, t) {
								miss = append(miss, t)
							}
						}
						rec.Deps = append(rec.Deps, depRec{Owner: a.owner, Kind: a.cl.Kind, Text: a.cl.Text, Tags: tg, Missing: miss, Line: a.cl.Line})
					}
				}
				mu.Lock()
				out = append(out, rec)
				mu.Unlock()
			}()
		}
	}
	wg.Wait()
	sort.Slice(out, func(i, j int) bool { return out[i].Oblig < out[j].Oblig })
	b, _ := json.MarshalIndent(out, "", " ")
	os.WriteFile(g.depsOut+".detail", b, 0644)
	// proposals: clauses of verified (not trusted) contracts that lack a tag of a proof resting on them; only proofs
	// inside functions that belong to the property's argument count (a function none of whose clauses carries P holds
	// P-tagged obligations only because a callee's precondition is tagged P)
	props := map[string]*DepTag{}
	for _, r := range out {
		fn := strings.SplitN(r.Oblig, "/", 2)[0]
		fsp := g.specs.Funcs[fn]
		if fsp == nil {
			continue
		}
		ft := fsp.allTags()
		for _, d := range r.Deps {
			osp := g.specs.Funcs[d.Owner]
			if osp == nil || osp.Trusted {
				continue
			}
			eff := d.Tags
			if len(eff) == 0 {
				eff = osp.allTags()
			}
			for _, t := range r.Tags {
				if hasTag(eff, t) || !hasTag(ft, t) {
					continue
				}
				k := d.Owner + "|" + d.Kind + "|" + d.Text
				p := props[k]
				if p == nil {
					p = &DepTag{Owner: d.Owner, Kind: d.Kind, Text: d.Text}
					props[k] = p
				}
				if !hasTag(p.Add, t) {
					p.Add = append(p.Add, t)
				}
				if len(p.Why) < 4 {
					p.Why = append(p.Why, r.Oblig+" ["+t+"]")
				}
			}
		}
	}
	var pl []*DepTag
	for _, p := range props {
		sort.Strings(p.Add)
		pl = append(pl, p)
	}
	sort.Slice(pl, func(i, j int) bool {
		if pl[i].Owner != pl[j].Owner {
			return pl[i].Owner < pl[j].Owner
		}
		return pl[i].Text < pl[j].Text
	})
	b, _ = json.MarshalIndent(pl, "", " ")
	os.WriteFile(g.depsOut, b, 0644)
}
