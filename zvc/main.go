package main

import (
	"flag"
	"go/build/constraint"
	"go/token"
	"fmt"
	"os"
	"path/filepath"
	"sort"
	"strings"
	"time"

	"golang.org/x/tools/go/packages"
	"golang.org/x/tools/go/ssa"
	"golang.org/x/tools/go/ssa/ssautil"
)

type Config struct {
	RepoDir  string
	Tags     string
	SpecDirs []string
}

func loadProgram(dir, tags string, overlayMod string) (*ssa.Program, *ssa.Package, error) {
	cfg := &packages.Config{Mode: packages.LoadAllSyntax, Dir: dir, BuildFlags: []string{"-tags=" + tags}}
	cfg.Env = append(os.Environ(), "GOFLAGS=-mod=mod", "GOPROXY=off", "GOSUMDB=off", "GOTOOLCHAIN=local")
	pat := "."
	if overlayMod != "" {
		cfg.Dir = overlayMod
		pat = zapxPath
	}
	pkgs, err := packages.Load(cfg, pat)
	if err != nil {
		return nil, nil, err
	}
	if len(pkgs) != 1 {
		return nil, nil, fmt.Errorf("expected one package, got %d", len(pkgs))
	}
	if len(pkgs[0].Errors) > 0 {
		var es []string
		for _, e := range pkgs[0].Errors {
			es = append(es, e.Error())
		}
		return nil, nil, fmt.Errorf("package errors: %s", strings.Join(es, "; "))
	}
	prog, spkgs := ssautil.AllPackages(pkgs, ssa.GlobalDebug|ssa.InstantiateGenerics)
	prog.Build()
	return prog, spkgs[0], nil
}

func newGen(prog *ssa.Program, pkg *ssa.Package, specs *SpecSet) *Gen {
	g := &Gen{prog: prog, pkg: pkg, specs: specs, fnByName: map[string]*ssa.Function{}, typeIDs: map[string]int{}, strLits: map[string]string{}, timeoutS: 10}
	for fn := range ssautil.AllFunctions(prog) {
		n := fnName(fn)
		if _, ok := specs.Funcs[n]; ok {
			g.fnByName[n] = fn
		} else if fn.Pkg == pkg && fn.Parent() == nil {
			g.fnByName[n] = fn
		}
	}
	g.computeUnstableGlobals()
	return g
}

var noRetryFlag bool
var noRetryNames = map[string]bool{}
var siteCoversFlag bool

func main() {
	repo := flag.String("repo", "/repo", "repository directory")
	tags := flag.String("tags", "verif", "build tags")
	specGlob := flag.String("specs", "/verif/specs/*.zspec", "library spec files")
	fnFilter := flag.String("fn", "", "only functions whose contract name contains this")
	prop := flag.String("prop", "", "only obligations tagged with this property")
	timeout := flag.Int("timeout", 10, "per-obligation solver timeout (s)")
	seed := flag.Int("seed", 0, "solver seed")
	verbose := flag.Bool("v", false, "verbose")
	dump := flag.String("dump", "", "write queries of failed/undecided obligations to this directory")
	overlay := flag.String("overlaymod", "", "module directory with replace directives (vectors build)")
	jsonOut := flag.String("json", "", "write machine-readable results to this file")
	loopsOf := flag.String("loops", "", "print the loop ordinals (with source positions) of the named function and exit")
	noRetry := flag.Bool("noretry", false, "do not restart obligations on which a solver ran out of time (used when a failure is the expected outcome)")
	siteCovers := flag.Bool("sitecovers", false, "add a consistency cover after every call whose contract was assumed (thorough tier)")
	depsOut := flag.String("deps", "", "proof-dependency audit: write, for every discharged obligation, the contract clauses in its unsat core (and the property tags they lack) to this file")
	depTags := flag.String("deptags", "/verif/specs/deptags.json", "table of property tags added to clauses by the proof-dependency audit")
	noRetryFor := flag.String("noretryfor", "", "comma-separated obligation names that are not restarted when undecided (recorded known findings)")
	flag.Parse()
	for _, n := range strings.Split(*noRetryFor, ",") {
		if n = strings.TrimSpace(n); n != "" {
			noRetryNames[n] = true
		}
	}

	initScratch()
	noRetryFlag = *noRetry
	siteCoversFlag = *siteCovers
	defer cleanupScratch()
	t0 := time.Now()
	if strings.Contains(*tags, "vectors") && *overlay == "" {
		// the vectors build is type-checked against the go-faiss signature stub through a throw-away loader module
		d := filepath.Join(scratchDir, "loadmod")
		os.MkdirAll(d, 0755)
		stub := os.Getenv("ZVC_FAISS_STUB")
		if stub == "" {
			stub = "/verif/stubs/go-faiss"
		}
		abs, _ := filepath.Abs(*repo)
		gomod := "module loadmod\n\ngo 1.21\n\nrequire github.com/blevesearch/zapx/v16 v16.0.0\n\nreplace github.com/blevesearch/zapx/v16 => " + abs + "\n\nreplace github.com/blevesearch/go-faiss => " + stub + "\n"
		os.WriteFile(filepath.Join(d, "go.mod"), []byte(gomod), 0644)
		os.WriteFile(filepath.Join(d, "main.go"), []byte("package loadmod\n\nimport _ \"github.com/blevesearch/zapx/v16\"\n"), 0644)
		if b, err := os.ReadFile(filepath.Join(abs, "go.sum")); err == nil {
			os.WriteFile(filepath.Join(d, "go.sum"), b, 0644)
		}
		*overlay = d
	}
	prog, pkg, err := loadProgram(*repo, *tags, *overlay)
	if err != nil {
		fmt.Fprintln(os.Stderr, "load:", err)
		os.Exit(2)
	}
	specs := newSpecSet()
	files, _ := filepath.Glob(*specGlob)
	sort.Strings(files)
	repoSpecs, _ := filepath.Glob(filepath.Join(*repo, "zz_verif_*.go"))
	files = append(files, repoSpecs...)
	for _, f := range files {
		if !buildTagsMatch(f, *tags) {
			continue
		}
		if err := specs.parseFile(f); err != nil {
			fmt.Fprintln(os.Stderr, "spec:", err)
			os.Exit(2)
		}
	}
	if err := specs.applyDepTags(*depTags); err != nil {
		fmt.Fprintln(os.Stderr, "spec:", err)
		os.Exit(2)
	}
	g := newGen(prog, pkg, specs)
	g.timeoutS = *timeout
	g.seed = *seed
	g.verbose = *verbose
	g.tagsLbl = *tags
	tLoad := time.Since(t0)
	if *loopsOf != "" {
		fn := g.fnByName[*loopsOf]
		if fn == nil {
			for f := range ssautil.AllFunctions(prog) {
				if fnName(f) == *loopsOf {
					fn = f
				}
			}
		}
		if fn == nil {
			fmt.Println("no such function")
			os.Exit(2)
		}
		for _, l := range findLoops(fn) {
			pos := token.NoPos
			for _, in := range l.head.Instrs {
				if in.Pos() != token.NoPos {
					pos = in.Pos()
					break
				}
			}
			if pos == token.NoPos {
				for b := range l.blocks {
					for _, in := range b.Instrs {
						if in.Pos() != token.NoPos && (pos == token.NoPos || in.Pos() < pos) {
							pos = in.Pos()
						}
					}
				}
			}
			var phis []string
			for _, in := range l.head.Instrs {
				if p, ok := in.(*ssa.Phi); ok {
					phis = append(phis, p.Comment)
				}
			}
			fmt.Printf("loop %d  head=b%d (%s)  %s  vars=%v\n", l.ord, l.head.Index, l.head.Comment, prog.Fset.Position(pos), phis)
		}
		return
	}

	g.depsOut = *depsOut
	rep := g.runAll(*fnFilter, *prop, *dump)
	rep.LoadS = tLoad.Seconds()
	rep.WallS = time.Since(t0).Seconds()
	rep.print(*verbose)
	if *jsonOut != "" {
		rep.writeJSON(*jsonOut)
	}
	cleanupScratch()
	if rep.Bad > 0 {
		os.Exit(1)
	}
}

// buildTagsMatch evaluates the //go:build line of a contract file against the tag set in use.
func buildTagsMatch(path, tags string) bool {
	data, err := os.ReadFile(path)
	if err != nil {
		return true
	}
	have := map[string]bool{}
	for _, t := range strings.Split(tags, ",") {
		have[strings.TrimSpace(t)] = true
	}
	for _, l := range strings.Split(string(data), "\n") {
		l = strings.TrimSpace(l)
		if strings.HasPrefix(l, "//go:build ") {
			x, err := constraint.Parse(l)
			if err != nil {
				return true
			}
			return x.Eval(func(tag string) bool { return have[tag] })
		}
		if strings.HasPrefix(l, "package ") {
			break
		}
	}
	return true
}
