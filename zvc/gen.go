package main

// Verification-condition generation for one function: SSA -> guarded definitions,
// assumptions and obligations.

import (
	"fmt"
	"go/token"
	"go/types"
	"sort"
	"strings"

	"golang.org/x/tools/go/ssa"
)

type Gen struct {
	prog     *ssa.Program
	pkg      *ssa.Package
	specs    *SpecSet
	fnByName map[string]*ssa.Function
	typeIDs  map[string]int
	strLits  map[string]string
	unstable map[string]bool
	viaUse   map[string]map[string]bool
	depsOut  string
	coneFns  map[string][]*ssa.Function
	coneOf   map[string]map[string]bool // tag -> function names reachable from the tag's roots
	timeoutS int
	seed     int
	verbose  bool
	tagsLbl  string
}

type Assume struct {
	block *ssa.BasicBlock
	seq   int
	f     string
	why   string
	cl    *Clause // the contract clause this assumption instantiates (nil for model facts)
	owner string  // function whose contract the clause belongs to
}

type Oblig struct {
	Retried bool // discharged only in the second, longer attempt
	Name   string
	Kind   string
	Fn     string
	Tags   []string
	block  *ssa.BasicBlock
	seq    int
	goal   string // formula that must be valid under the assumptions
	Text   string
	Cover  bool // cover query: expected sat
	Lazy   bool   // discharged only on demand (the reachability half of a call-site cover)
	Before *Oblig // for a cover after a call: the cover of the call itself
	QFOnly bool // cover over the quantifier-free assumptions only (cheap consistency check after a call)
	Bound  bool
	Result *SolverResult
	Query  string
	Status string // discharged | failed | undecided | cover-ok ...
	Spec   *Clause
}

type FnCtx struct {
	g        *Gen
	fn       *ssa.Function
	spec     *FuncSpec
	m        M
	thin     bool
	decls    []string
	declared map[string]string
	sorts    map[string]string // array name -> sort
	defs     []string
	defsQ    []string
	assumes  []Assume
	obligs   []*Oblig
	stateN   int
	fresh    int
	seq      int
	curBlock *ssa.BasicBlock // top-level block being processed
	anc      map[*ssa.BasicBlock]map[*ssa.BasicBlock]bool
	entry    *State
	top      *Frame
	warnings []string
	assumpt  map[string]bool // assumptions used (for evidence)
	errs     []string
	ufDecl   map[string]bool
	failedFlags map[string][]string // propagates: clause key -> list of guarded "failed" terms so far (per block handled via ghost)
	locals   map[*ssa.Alloc]bool
	callOrd  map[string]int
	closures map[ssa.Value]*ssa.MakeClosure
	retInfos []retInfo
	exit     *retInfo
	propFlags map[int][]propFlag
	onlyFlags map[int][]propFlag // failsonly: "a listed callee returned a non-nil error"
	storeOrd  map[*ssa.Store]string // assert store NAME#k sites
	folA      map[int][]propFlag // follows: A returned with E
	folB      map[int][]propFlag // follows: B called
	tolFlags  map[int][]propFlag // tolerates: "the listed callee returned the tolerated error value"
	modMemo  map[*ssa.Function]*ModSet
	modBusy  map[*ssa.Function]bool
	funDefs  []string
	cloFrames map[ssa.Value]*Frame
	ground   map[string]bool
	localMaps map[string]bool
	refArr   map[string]bool
	siteCount int
	coverN   int
	rangeN   int
	relMode  bool
	relLeft  *Frame
	suppress int
	siteOrd  map[ssa.Instruction]int
	lastSite string
	lastSiteName string
}

type retInfo struct {
	block *ssa.BasicBlock
	seq   int
	guard string
	res   []Val
	state *State
}

// Frame is one activation being translated (the function itself or an inlined callee).
type Frame struct {
	fc       *FnCtx
	fn       *ssa.Function
	parent   *Frame
	depth    int
	vals     map[ssa.Value]Val
	addrs    map[ssa.Value]*Addr
	reach    map[*ssa.BasicBlock]string
	out      map[*ssa.BasicBlock]*State
	edge     map[[2]int]string
	entryG   string
	params   map[string]Val
	bindings []Val // closure free variables (addresses)
	bindAddr []*Addr
	defers   []*deferRec
	rets     []retInfo
	loops    []*loopInfo
	loopOf   map[*ssa.BasicBlock]*loopInfo
	isTop    bool
	entrySt  *State
	failed   map[int]string // propagates clause ord -> ghost local name
	tagStr   string
	relSites map[string]*relPoint
	mapRanges map[*ssa.Range]*mapRange
	relTag   string
}

type deferRec struct {
	instr *ssa.Defer
	guard string
	block *ssa.BasicBlock
}

type mapRange struct {
	vis  string // state array: keys produced so far
	dom0 string // key set when the range statement started
	m    Val
	ks   string
}

type relPoint struct {
	vals  map[*ssa.Phi]Val
	st    *State
	cond  string
	args  map[string]Val
	block *ssa.BasicBlock
	in    ssa.Instruction
}

type loopInfo struct {
	relEntry, relHead *relPoint
	entryPhi map[*ssa.Phi]Val
	relLatch          []*relPoint
	head   *ssa.BasicBlock
	ord    int
	blocks map[*ssa.BasicBlock]bool
	backs  []*ssa.BasicBlock
	preSt  *State
	headSt *State // state at the loop head after the havoc (start of the generic iteration)
	phiVal map[*ssa.Phi]Val
}

type AddrKind int

const (
	aField AddrKind = iota
	aElem
	aCell
	aLocal
	aGlobal
)

type Addr struct {
	Kind AddrKind
	Obj  string // struct ref / base ref / cell ref
	Idx  string
	ST   types.Type // struct (named) type for aField
	F    int
	ET   types.Type // element / pointee type
	Name string     // aLocal / aGlobal name
}

func (fc *FnCtx) freshName(prefix string) string {
	fc.fresh++
	return fmt.Sprintf("%s!%d", prefix, fc.fresh)
}

func (fc *FnCtx) declareConst(name, sort string) {
	if _, ok := fc.declared[name]; ok {
		return
	}
	fc.declared[name] = sort
	fc.decls = append(fc.decls, fmt.Sprintf("(declare-const %s %s)", sym(name), sort))
}

func (fc *FnCtx) declareFun(name, sig string) {
	if _, ok := fc.declared[name]; ok {
		return
	}
	fc.declared[name] = sig
	fc.decls = append(fc.decls, fmt.Sprintf("(declare-fun %s %s)", sym(name), sig))
}

func (fc *FnCtx) define(f string) {
	if f == "true" {
		return
	}
	fc.defs = append(fc.defs, f)
}

// defineQ records a quantified definition of a fresh symbol (a conservative extension: it cannot make the
// assumptions unsatisfiable, so cover queries leave it out to stay decidable).
func (fc *FnCtx) defineQ(f string) {
	fc.defsQ = append(fc.defsQ, f)
}

func (fc *FnCtx) assume(f, why string) {
	if f == "true" || fc.suppress > 0 {
		return
	}
	fc.seq++
	fc.assumes = append(fc.assumes, Assume{fc.curBlock, fc.seq, f, why, nil, ""})
}

// assumeC: an assumption that instantiates a contract clause (recorded for the proof-dependency audit).
func (fc *FnCtx) assumeC(f, why string, cl *Clause, owner string) {
	if f == "true" || fc.suppress > 0 {
		return
	}
	fc.seq++
	fc.assumes = append(fc.assumes, Assume{fc.curBlock, fc.seq, f, why, cl, owner})
}

func (fc *FnCtx) note(a string) { fc.assumpt[a] = true }

func (fc *FnCtx) warn(f string, a ...any) {
	fc.warnings = append(fc.warnings, fmt.Sprintf(f, a...))
}

func (fc *FnCtx) arrSort(name string) string {
	if s, ok := fc.sorts[name]; ok {
		return s
	}
	panic("unknown array sort for " + name)
}

func (fc *FnCtx) isLocalArr(name string) bool { return strings.HasPrefix(name, "L!") }

func (fc *FnCtx) onHavoc(name, term string, prev *State) {
	if name == "$top" {
		fc.define(sx("<=", prev.get("$top"), term))
	}
}

func (fc *FnCtx) addOblig(o *Oblig) {
	if fc.suppress > 0 {
		return // inside a specification-level evaluation (closure applied in a contract)
	}
	if fc.relMode && !strings.HasPrefix(o.Kind, "rel") && !strings.HasSuffix(o.Name, "/rel-cover") {
		return // the relational pass only produces relational obligations (unary ones belong to the ordinary pass)
	}
	fc.seq++
	o.block = fc.curBlock
	o.seq = fc.seq
	o.Fn = fc.spec.Name
	if len(o.Tags) == 0 {
		o.Tags = fc.spec.allTags()
	}
	fc.obligs = append(fc.obligs, o)
}

// ---------------------------------------------------------------------------
// value construction

func (fc *FnCtx) freshVal(t types.Type, prefix string) Val {
	return fc.freshValR(t, prefix, true)
}

func (fc *FnCtx) freshValR(t types.Type, prefix string, rangeAssume bool) Val {
	switch kindOf(t) {
	case KBool, KStr, KFloat, KOther:
		n := fc.freshName(prefix)
		fc.declareConst(n, fc.m.scalarSort(t))
		return Val{T: t, S: sym(n)}
	case KInt:
		n := fc.freshName(prefix)
		fc.declareConst(n, fc.m.scalarSort(t))
		if rangeAssume {
			fc.define(fc.m.inRange(sym(n), t))
		}
		return Val{T: t, S: sym(n)}
	case KRef:
		n := fc.freshName(prefix)
		fc.declareConst(n, "Int")
		return Val{T: t, S: sym(n)}
	case KSlice:
		v := Val{T: t}
		for _, c := range []string{"base", "off", "len", "cap"} {
			n := fc.freshName(prefix + "." + c)
			if c == "base" {
				fc.declareConst(n, "Int")
				v.Sub = append(v.Sub, Val{T: tRef, S: sym(n)})
				continue
			}
			fc.declareConst(n, fc.m.idxSort())
			v.Sub = append(v.Sub, Val{T: tInt, S: sym(n)})
		}
		fc.define(fc.sliceWF(v))
		return v
	case KIface:
		v := Val{T: t}
		for _, c := range []string{"tag", "val"} {
			n := fc.freshName(prefix + "." + c)
			fc.declareConst(n, "Int")
			v.Sub = append(v.Sub, Val{T: tRef, S: sym(n)})
		}
		fc.define(sx(">=", v.Sub[0].S, "0"))
		return v
	case KStruct:
		st := t.Underlying().(*types.Struct)
		v := Val{T: t}
		for i := 0; i < st.NumFields(); i++ {
			v.Sub = append(v.Sub, fc.freshValR(st.Field(i).Type(), prefix+"."+st.Field(i).Name(), rangeAssume))
		}
		return v
	case KTuple:
		tp := t.(*types.Tuple)
		v := Val{T: t}
		for i := 0; i < tp.Len(); i++ {
			v.Sub = append(v.Sub, fc.freshValR(tp.At(i).Type(), fmt.Sprintf("%s.%d", prefix, i), rangeAssume))
		}
		return v
	case KArray:
		n := fc.freshName(prefix)
		fc.declareConst(n, "Int")
		return Val{T: t, S: sym(n)}
	}
	panic("freshVal")
}

// sliceWF: well-formedness of a slice header.
func (fc *FnCtx) sliceWF(v Val) string {
	m := fc.m
	z := m.intConstI(0, tInt)
	off, ln, cp := v.Sub[1].S, v.Sub[2].S, v.Sub[3].S
	c := []string{
		m.cmp(token.LEQ, z, off, tInt), m.cmp(token.LEQ, z, ln, tInt), m.cmp(token.LEQ, ln, cp, tInt),
	}
	if m.mode == ModeInt {
		c = append(c, sx("<=", sx("+", off, cp), "4611686018427387904"))
		c = append(c, sImp(sEq(v.Sub[0].S, "0"), sAnd(sEq(off, "0"), sEq(cp, "0"))))
	} else {
		c = append(c, sx("bvule", off, "(_ bv4611686018427387904 64)"), sx("bvule", cp, "(_ bv4611686018427387904 64)"))
		c = append(c, sImp(sEq(v.Sub[0].S, "0"), sAnd(sEq(off, z), sEq(cp, z))))
	}
	return sAnd(c...)
}

func (fc *FnCtx) zeroVal(t types.Type) Val {
	m := fc.m
	switch kindOf(t) {
	case KBool:
		return Val{T: t, S: "false"}
	case KInt:
		return Val{T: t, S: m.intConstI(0, t)}
	case KStr:
		return Val{T: t, S: fc.strLit("")}
	case KFloat:
		fc.declareConst("float!zero", "Int")
		return Val{T: t, S: "float!zero"}
	case KRef, KOther, KArray:
		return Val{T: t, S: "0"}
	case KSlice:
		z := m.intConstI(0, tInt)
		return Val{T: t, Sub: []Val{{T: tRef, S: "0"}, {T: tInt, S: z}, {T: tInt, S: z}, {T: tInt, S: z}}}
	case KIface:
		return Val{T: t, Sub: []Val{{T: tRef, S: "0"}, {T: tRef, S: "0"}}}
	case KStruct:
		st := t.Underlying().(*types.Struct)
		v := Val{T: t}
		for i := 0; i < st.NumFields(); i++ {
			v.Sub = append(v.Sub, fc.zeroVal(st.Field(i).Type()))
		}
		return v
	case KTuple:
		tp := t.(*types.Tuple)
		v := Val{T: t}
		for i := 0; i < tp.Len(); i++ {
			v.Sub = append(v.Sub, fc.zeroVal(tp.At(i).Type()))
		}
		return v
	}
	panic("zeroVal")
}

func (fc *FnCtx) strLit(s string) string {
	g := fc.g
	name, ok := g.strLits[s]
	if !ok {
		name = fmt.Sprintf("str!%d", len(g.strLits))
		g.strLits[s] = name
	}
	if _, ok := fc.declared[name]; !ok {
		fc.declareConst(name, "Str")
		fc.define(sEq(sx("strlen", name), fc.m.intConstI(int64(len(s)), tInt)))
		fc.define(sEq(sx("strid", name), fmt.Sprint(len(fc.declared)+1000)))
	}
	return name
}

func (fc *FnCtx) typeID2(k string) string {
	id, ok := fc.g.typeIDs[k]
	if !ok {
		id = len(fc.g.typeIDs) + 1
		fc.g.typeIDs[k] = id
	}
	return fmt.Sprint(id)
}

func (fc *FnCtx) typeID(t types.Type) string {
	k := typeKey(t)
	id, ok := fc.g.typeIDs[k]
	if !ok {
		id = len(fc.g.typeIDs) + 1
		fc.g.typeIDs[k] = id
	}
	return fmt.Sprint(id)
}

// flatten a value into scalar leaves with path suffixes.
func flatten(v Val, prefix string, out *[]leaf) {
	switch kindOf(v.T) {
	case KSlice:
		for i, c := range []string{"base", "off", "len", "cap"} {
			*out = append(*out, leaf{prefix + "!" + c, v.Sub[i].S, i == 0})
		}
	case KIface:
		*out = append(*out, leaf{prefix + "!tag", v.Sub[0].S, true}, leaf{prefix + "!val", v.Sub[1].S, true})
	case KStruct, KTuple:
		panic("flatten of struct value: use field-wise access")
	default:
		*out = append(*out, leaf{prefix, v.S, false})
	}
}

type leaf struct {
	suffix string
	term   string
	isRef  bool
}

// leafSorts gives (suffix, sort) of the scalar leaves of a non-struct type.
func (fc *FnCtx) leafSorts(t types.Type) [][2]string {
	m := fc.m
	switch kindOf(t) {
	case KSlice:
		return [][2]string{{"!base", "Int"}, {"!off", m.idxSort()}, {"!len", m.idxSort()}, {"!cap", m.idxSort()}}
	case KIface:
		return [][2]string{{"!tag", "Int"}, {"!val", "Int"}}
	default:
		return [][2]string{{"", m.scalarSort(t)}}
	}
}

func (fc *FnCtx) buildFromLeaves(t types.Type, get func(suffix string) string) Val {
	switch kindOf(t) {
	case KSlice:
		return Val{T: t, Sub: []Val{{T: tRef, S: get("!base")}, {T: tInt, S: get("!off")}, {T: tInt, S: get("!len")}, {T: tInt, S: get("!cap")}}}
	case KIface:
		return Val{T: t, Sub: []Val{{T: tRef, S: get("!tag")}, {T: tRef, S: get("!val")}}}
	default:
		return Val{T: t, S: get("")}
	}
}

func leavesOf(v Val) map[string]string {
	switch kindOf(v.T) {
	case KSlice:
		return map[string]string{"!base": v.Sub[0].S, "!off": v.Sub[1].S, "!len": v.Sub[2].S, "!cap": v.Sub[3].S}
	case KIface:
		return map[string]string{"!tag": v.Sub[0].S, "!val": v.Sub[1].S}
	default:
		return map[string]string{"": v.S}
	}
}

// ---------------------------------------------------------------------------
// heap naming

func structName(t types.Type) string {
	if p, ok := t.Underlying().(*types.Pointer); ok {
		t = p.Elem()
	}
	return typeKey(t)
}

func (fc *FnCtx) fieldArrName(st types.Type, f int) (string, types.Type) {
	s := st.Underlying().(*types.Struct)
	return "F!" + structName(st) + "." + s.Field(f).Name(), s.Field(f).Type()
}

func (fc *FnCtx) regArr(name, sort string) {
	if _, ok := fc.sorts[name]; !ok {
		fc.sorts[name] = sort
	}
}

// markRefLeaves records which leaf arrays of a location of type t hold references.
func (fc *FnCtx) markRefLeaves(base string, t types.Type) {
	switch kindOf(t) {
	case KSlice:
		fc.refArr[base+"!base"] = true
	case KIface:
		fc.refArr[base+"!val"] = true
	case KRef:
		fc.refArr[base] = true
	}
}

func (fc *FnCtx) embFn(st types.Type, f int) string {
	s := st.Underlying().(*types.Struct)
	n := "emb!" + structName(st) + "." + s.Field(f).Name()
	if _, ok := fc.declared[n]; !ok {
		fc.declareFun(n, "(Int) Int")
		fc.declareFun(n+"!inv", "(Int) Int")
	}
	return n
}

// embRef builds the ref of the struct/array embedded as field f of obj, with its ground axioms.
func (fc *FnCtx) embRef(st types.Type, f int, obj string) string {
	n := fc.embFn(st, f)
	t := sx(sym(n), obj)
	key := "emb:" + t
	if !fc.ground[key] && !strings.Contains(t, "q!") {
		fc.ground[key] = true
		fc.declareFun("embkind", "(Int) Int")
		fc.define(sAnd(sEq(sx(sym(n+"!inv"), t), obj), sImp(sNot(sEq(obj, "0")), sAnd(sx("<", t, "0"), sEq(sx("embkind", t), fc.typeID2("emb:"+n))))))
	}
	return t
}

func (fc *FnCtx) elemFn(et types.Type) string {
	n := "elem!" + typeKey(et)
	if _, ok := fc.declared[n]; !ok {
		is := fc.m.idxSort()
		fc.declareFun(n, "(Int "+is+") Int")
		fc.declareFun(n+"!b", "(Int) Int")
		fc.declareFun(n+"!i", "(Int) "+is)
	}
	return n
}

func (fc *FnCtx) elemRef(et types.Type, base, idx string) string {
	n := fc.elemFn(et)
	t := sx(sym(n), base, idx)
	key := "elem:" + t
	if !fc.ground[key] && !strings.Contains(t, "q!") {
		fc.ground[key] = true
		fc.declareFun("embkind", "(Int) Int")
		fc.define(sAnd(sEq(sx(sym(n+"!b"), t), base), sEq(sx(sym(n+"!i"), t), idx), sx("<", t, "0"), sEq(sx("embkind", t), fc.typeID2("elem:"+n))))
	}
	return t
}

// structRef turns an address of a struct-typed location into the struct's ref.
func (fc *FnCtx) structRef(a *Addr, t types.Type) string {
	switch a.Kind {
	case aField:
		return fc.embRef(a.ST, a.F, a.Obj)
	case aElem:
		return fc.elemRef(t, a.Obj, a.Idx)
	case aCell:
		return a.Obj
	}
	panic("structRef of local/global")
}

// locArrays returns, for a non-struct location, the array names per leaf and an accessor.
func (fc *FnCtx) locName(a *Addr, t types.Type) string {
	switch a.Kind {
	case aField:
		n, _ := fc.fieldArrName(a.ST, a.F)
		return n
	case aElem:
		return "E!" + typeKey(t)
	case aCell:
		return "M!" + typeKey(t)
	case aLocal, aGlobal:
		return a.Name
	}
	panic("locName")
}

func (fc *FnCtx) arrSortFor(a *Addr, leafSort string) string {
	switch a.Kind {
	case aField, aCell:
		return "(Array Int " + leafSort + ")"
	case aElem:
		return "(Array Int (Array " + fc.m.idxSort() + " " + leafSort + "))"
	}
	return leafSort
}

func (fc *FnCtx) selectAt(a *Addr, arr string) string {
	switch a.Kind {
	case aField, aCell:
		return sx("select", arr, a.Obj)
	case aElem:
		return sx("select", sx("select", arr, a.Obj), a.Idx)
	}
	return arr
}

func (fc *FnCtx) storeAtTerm(a *Addr, arr, v string) string {
	switch a.Kind {
	case aField, aCell:
		return sx("store", arr, a.Obj, v)
	case aElem:
		return sx("store", arr, a.Obj, sx("store", sx("select", arr, a.Obj), a.Idx, v))
	}
	return v
}

// load a value of type t from address a in state st.
func (fc *FnCtx) load(st *State, a *Addr, t types.Type) Val {
	switch kindOf(t) {
	case KStruct:
		ref := fc.structRef(a, t)
		s := t.Underlying().(*types.Struct)
		v := Val{T: t}
		for i := 0; i < s.NumFields(); i++ {
			v.Sub = append(v.Sub, fc.load(st, &Addr{Kind: aField, Obj: ref, ST: t, F: i}, s.Field(i).Type()))
		}
		return v
	case KArray:
		// array value: represented by the ref of its storage
		if a.Kind == aField {
			return Val{T: t, S: fc.embRef(a.ST, a.F, a.Obj)}
		}
		return Val{T: t, S: a.Obj}
	}
	base := fc.locName(a, t)
	fc.markRefLeaves(base, t)
	defer func() {
		// heap well-typedness: whatever is read from a location of type t is a well-typed value
		if key := "ty:" + base + "|" + a.Obj + "|" + a.Idx + "|" + fmt.Sprint(st.id); !fc.ground[key] && a.Kind != aLocal && a.Kind != aGlobal {
			fc.ground[key] = true
			fc.typingOfLoad(st, a, t, base)
		}
	}()
	v := fc.buildFromLeaves(t, func(suffix string) string {
		n := base + suffix
		var ls string
		for _, l := range fc.leafSorts(t) {
			if l[0] == suffix {
				ls = l[1]
			}
		}
		fc.regArr(n, fc.arrSortFor(a, ls))
		if a.Kind == aField || a.Kind == aCell {
			if fv, ok := st.forwarded(n, a.Obj); ok {
				return fv
			}
		}
		return fc.selectAt(a, st.get(n))
	})
	return v
}

func (fc *FnCtx) typingOfLoad(st *State, a *Addr, t types.Type, base string) {
	v := fc.buildFromLeaves(t, func(suffix string) string {
		return fc.selectAt(a, st.get(base+suffix))
	})
	if f := fc.typingFacts(st, v); f != "true" {
		if strings.Contains(f, "q!") {
			return // inside a quantifier: bound variables are not in scope for a global fact
		}
		fc.define(f)
	}
}

// typing facts of a loaded value (range, slice well-formedness, refs below the allocation top)
func (fc *FnCtx) typingFacts(st *State, v Val) string {
	switch kindOf(v.T) {
	case KInt:
		return fc.m.inRange(v.S, v.T)
	case KSlice:
		return sAnd(fc.sliceWF(v), fc.refBelowTop(st, v.Sub[0].S))
	case KRef:
		return fc.refBelowTop(st, v.S)
	case KIface:
		return sAnd(sx(">=", v.Sub[0].S, "0"), fc.refBelowTop(st, v.Sub[1].S))
	case KStruct, KTuple:
		var c []string
		for _, s := range v.Sub {
			c = append(c, fc.typingFacts(st, s))
		}
		return sAnd(c...)
	}
	return "true"
}

func (fc *FnCtx) refBelowTop(st *State, r string) string {
	fc.regArr("$top", "Int")
	return sx("<=", r, st.get("$top"))
}

func (fc *FnCtx) storeVal(st *State, a *Addr, t types.Type, v Val) *State {
	switch kindOf(t) {
	case KStruct:
		ref := fc.structRef(a, t)
		s := t.Underlying().(*types.Struct)
		for i := 0; i < s.NumFields(); i++ {
			st = fc.storeVal(st, &Addr{Kind: aField, Obj: ref, ST: t, F: i}, s.Field(i).Type(), v.Sub[i])
		}
		return st
	case KArray:
		return st // array values are not modelled
	}
	base := fc.locName(a, t)
	lv := leavesOf(v)
	for _, l := range fc.leafSorts(t) {
		n := base + l[0]
		fc.regArr(n, fc.arrSortFor(a, l[1]))
		if a.Kind == aLocal || a.Kind == aGlobal {
			st = st.setRaw(n, lv[l[0]])
		} else {
			st = st.store(n, fc.storeAtTerm(a, st.get(n), lv[l[0]]))
			if a.Kind == aField || a.Kind == aCell {
				st.key, st.val = a.Obj, lv[l[0]]
			}
		}
	}
	return st
}

// names of arrays written by a store of type t through a.
func (fc *FnCtx) storeNames(a *Addr, t types.Type, out map[string]bool) {
	switch kindOf(t) {
	case KStruct:
		s := t.Underlying().(*types.Struct)
		for i := 0; i < s.NumFields(); i++ {
			fc.storeNames(&Addr{Kind: aField, ST: t, F: i}, s.Field(i).Type(), out)
		}
		return
	case KArray:
		return
	}
	base := fc.locName(a, t)
	fc.markRefLeaves(base, t)
	for _, l := range fc.leafSorts(t) {
		fc.regArr(base+l[0], fc.arrSortFor(a, l[1]))
		out[base+l[0]] = true
	}
}

// allocate a fresh reference
func (fc *FnCtx) alloc(st *State, prefix string) (string, *State) {
	fc.regArr("$top", "Int")
	n := fc.freshName(prefix)
	fc.declareConst(n, "Int")
	top := st.get("$top")
	fc.define(sEq(sym(n), sx("+", top, "1")))
	fc.define(sx(">", sym(n), "0"))
	st = st.setRaw("$top", sym(n))
	return sym(n), st
}

// zero-initialise a fresh struct object
func (fc *FnCtx) zeroStruct(st *State, ref string, t types.Type) *State {
	s := t.Underlying().(*types.Struct)
	for i := 0; i < s.NumFields(); i++ {
		ft := s.Field(i).Type()
		a := &Addr{Kind: aField, Obj: ref, ST: t, F: i}
		switch kindOf(ft) {
		case KStruct:
			if tk := typeKey(ft); tk == "sync.Mutex" || tk == "sync.RWMutex" {
				// a fresh mutex is unlocked
				fc.regArr("G!muHeld", "(Array Int Int)")
				st = st.store("G!muHeld", sx("store", st.get("G!muHeld"), fc.structRef(a, ft), "0"))
				continue
			}
			st = fc.zeroStruct(st, fc.structRef(a, ft), ft)
		case KArray:
			et := ft.Underlying().(*types.Array).Elem()
			st = fc.zeroRow(st, fc.embRef(t, i, ref), et)
		default:
			st = fc.storeVal(st, a, ft, fc.zeroVal(ft))
		}
	}
	return st
}

// zeroRow sets all elements of a fresh backing array to zero.
func (fc *FnCtx) zeroRow(st *State, base string, et types.Type) *State {
	if kindOf(et) == KStruct || kindOf(et) == KArray {
		fc.note("fresh arrays of struct/array elements are not zero-initialised in the model (elements unconstrained)")
		return st
	}
	z := leavesOf(fc.zeroVal(et))
	a := &Addr{Kind: aElem}
	for _, l := range fc.leafSorts(et) {
		n := "E!" + typeKey(et) + l[0]
		fc.regArr(n, fc.arrSortFor(a, l[1]))
		row := sx(fmt.Sprintf("(as const (Array %s %s))", fc.m.idxSort(), l[1]), z[l[0]])
		st = st.store(n, sx("store", st.get(n), base, row))
	}
	return st
}

// ---------------------------------------------------------------------------

func fnName(f *ssa.Function) string {
	s := f.String()
	s = strings.ReplaceAll(s, zapxPath+".", "")
	s = strings.ReplaceAll(s, "github.com/blevesearch/", "")
	s = strings.ReplaceAll(s, "github.com/RoaringBitmap/", "")
	return s
}

func (g *Gen) specFor(f *ssa.Function) *FuncSpec {
	if f == nil {
		return nil
	}
	return g.specs.Funcs[fnName(f)]
}

// blocks in reverse post-order ignoring back edges
func rpo(fn *ssa.Function) []*ssa.BasicBlock {
	seen := map[*ssa.BasicBlock]bool{}
	var order []*ssa.BasicBlock
	var dfs func(b *ssa.BasicBlock)
	dfs = func(b *ssa.BasicBlock) {
		seen[b] = true
		for _, s := range b.Succs {
			if !seen[s] {
				dfs(s)
			}
		}
		order = append(order, b)
	}
	if len(fn.Blocks) > 0 {
		dfs(fn.Blocks[0])
	}
	for i, j := 0, len(order)-1; i < j; i, j = i+1, j-1 {
		order[i], order[j] = order[j], order[i]
	}
	return order
}

func findLoops(fn *ssa.Function) []*loopInfo {
	byHead := map[*ssa.BasicBlock]*loopInfo{}
	var loops []*loopInfo
	for _, b := range fn.Blocks {
		for _, s := range b.Succs {
			if s.Dominates(b) { // back edge b -> s
				li := byHead[s]
				if li == nil {
					li = &loopInfo{head: s, blocks: map[*ssa.BasicBlock]bool{s: true}}
					byHead[s] = li
					loops = append(loops, li)
				}
				li.backs = append(li.backs, b)
				// natural loop
				var stack []*ssa.BasicBlock
				if !li.blocks[b] {
					li.blocks[b] = true
					stack = append(stack, b)
				}
				for len(stack) > 0 {
					x := stack[len(stack)-1]
					stack = stack[:len(stack)-1]
					for _, p := range x.Preds {
						if !li.blocks[p] {
							li.blocks[p] = true
							stack = append(stack, p)
						}
					}
				}
			}
		}
	}
	sort.Slice(loops, func(i, j int) bool { return loops[i].head.Index < loops[j].head.Index })
	for i, l := range loops {
		l.ord = i + 1
	}
	return loops
}

func isBackEdge(from, to *ssa.BasicBlock) bool { return to.Dominates(from) }

func (fc *FnCtx) computeAnc(fn *ssa.Function) {
	fc.anc = map[*ssa.BasicBlock]map[*ssa.BasicBlock]bool{}
	for _, b := range rpo(fn) {
		a := map[*ssa.BasicBlock]bool{}
		for _, p := range b.Preds {
			if isBackEdge(p, b) {
				continue
			}
			a[p] = true
			for x := range fc.anc[p] {
				a[x] = true
			}
		}
		fc.anc[b] = a
	}
}
