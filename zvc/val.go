package main

// Value shapes, sorts and per-mode integer arithmetic.

import (
	"fmt"
	"go/constant"
	"go/token"
	"go/types"
	"math/big"
	"regexp"
	"strings"
)

type Mode int

const (
	ModeInt Mode = iota
	ModeBV
)

type Kind int

const (
	KBool Kind = iota
	KInt
	KFloat
	KStr
	KRef // pointer, map, chan, func, unsafe.Pointer
	KSlice
	KIface
	KStruct
	KTuple
	KArray
	KOther
)

type Val struct {
	T       types.Type
	S       string
	Sub     []Val
	Untyped bool // untyped integer constant from a spec
	Math    bool // int mode: result of unbounded spec arithmetic (may lie outside the range of T)
}

func (v Val) IsZeroVal() bool { return v.T == nil && v.S == "" && v.Sub == nil }

func kindOf(t types.Type) Kind {
	if t == nil {
		return KOther
	}
	switch u := t.Underlying().(type) {
	case *types.Basic:
		info := u.Info()
		switch {
		case info&types.IsBoolean != 0:
			return KBool
		case info&types.IsInteger != 0:
			return KInt
		case info&types.IsFloat != 0, info&types.IsComplex != 0:
			return KFloat
		case info&types.IsString != 0:
			return KStr
		case u.Kind() == types.UnsafePointer:
			return KRef
		case u.Kind() == types.UntypedNil:
			return KRef
		}
		return KOther
	case *types.Pointer, *types.Map, *types.Chan, *types.Signature:
		return KRef
	case *types.Slice:
		return KSlice
	case *types.Interface:
		return KIface
	case *types.Struct:
		return KStruct
	case *types.Tuple:
		return KTuple
	case *types.Array:
		return KArray
	case *types.TypeParam:
		return KOther
	}
	return KOther
}

// intInfo returns (bits, signed) for an integer type.
func intInfo(t types.Type) (int, bool) {
	b, ok := t.Underlying().(*types.Basic)
	if !ok {
		return 64, true
	}
	switch b.Kind() {
	case types.Int8:
		return 8, true
	case types.Int16:
		return 16, true
	case types.Int32:
		return 32, true
	case types.Int64, types.Int, types.UntypedInt, types.UntypedRune:
		return 64, true
	case types.Uint8:
		return 8, false
	case types.Uint16:
		return 16, false
	case types.Uint32:
		return 32, false
	case types.Uint64, types.Uint, types.Uintptr:
		return 64, false
	}
	return 64, true
}

func pow2(n int) *big.Int { return new(big.Int).Lsh(big.NewInt(1), uint(n)) }

func intRange(t types.Type) (lo, hi *big.Int) {
	w, s := intInfo(t)
	if s {
		hi = new(big.Int).Sub(pow2(w-1), big.NewInt(1))
		lo = new(big.Int).Neg(pow2(w - 1))
	} else {
		lo = big.NewInt(0)
		hi = new(big.Int).Sub(pow2(w), big.NewInt(1))
	}
	return
}

func bigLit(b *big.Int) string {
	if b.Sign() < 0 {
		return "(- " + new(big.Int).Neg(b).String() + ")"
	}
	return b.String()
}

var (
	tInt    = types.Typ[types.Int]
	tUint64 = types.Typ[types.Uint64]
	tBool   = types.Typ[types.Bool]
	tString = types.Typ[types.String]
	tByte   = types.Typ[types.Uint8]
	tRef    = types.Typ[types.UnsafePointer]
)

// ---------------------------------------------------------------------------

type M struct{ mode Mode } // arithmetic for a mode

func (m M) intSort(t types.Type) string {
	if m.mode == ModeBV {
		w, _ := intInfo(t)
		return fmt.Sprintf("(_ BitVec %d)", w)
	}
	return "Int"
}

func (m M) scalarSort(t types.Type) string {
	switch kindOf(t) {
	case KBool:
		return "Bool"
	case KInt:
		return m.intSort(t)
	case KStr:
		return "Str"
	default:
		return "Int"
	}
}

func (m M) idxSort() string { return m.intSort(tInt) }

func (m M) intConst(b *big.Int, t types.Type) string {
	if m.mode == ModeBV {
		w, _ := intInfo(t)
		x := new(big.Int).Set(b)
		if x.Sign() < 0 {
			x.Add(x, pow2(w))
		}
		x.Mod(x, pow2(w))
		return fmt.Sprintf("(_ bv%s %d)", x.String(), w)
	}
	return bigLit(b)
}

func (m M) intConstI(i int64, t types.Type) string { return m.intConst(big.NewInt(i), t) }

// inRange gives the typing constraint of an integer term (true in bv mode).
func (m M) inRange(s string, t types.Type) string {
	if m.mode == ModeBV {
		return "true"
	}
	lo, hi := intRange(t)
	return sx("and", sx("<=", bigLit(lo), s), sx("<=", s, bigLit(hi)))
}

func (m M) wrap(s string, t types.Type) string {
	// exact for any integer s
	w, signed := intInfo(t)
	p := pow2(w).String()
	if !signed {
		return sx("mod", s, p)
	}
	h := pow2(w - 1).String()
	return sx("-", sx("mod", sx("+", s, h), p), h)
}

// wrap1 is exact when s is at most one modulus away from the range (add/sub of in-range operands).
func (m M) wrap1(s string, t types.Type) string {
	w, _ := intInfo(t)
	lo, hi := intRange(t)
	p := pow2(w).String()
	return sx("ite", sx(">", s, bigLit(hi)), sx("-", s, p), sx("ite", sx("<", s, bigLit(lo)), sx("+", s, p), s))
}

func isConstTerm(s string) (*big.Int, bool) {
	s = strings.TrimSpace(s)
	neg := false
	if strings.HasPrefix(s, "(- ") && strings.HasSuffix(s, ")") {
		neg = true
		s = s[3 : len(s)-1]
	}
	if strings.HasPrefix(s, "(_ bv") {
		f := strings.Fields(s[5:])
		if len(f) == 2 {
			b, ok := new(big.Int).SetString(f[0], 10)
			return b, ok
		}
		return nil, false
	}
	b, ok := new(big.Int).SetString(s, 10)
	if !ok {
		return nil, false
	}
	if neg {
		b.Neg(b)
	}
	return b, true
}

func isPow2(b *big.Int) (int, bool) {
	if b.Sign() <= 0 {
		return 0, false
	}
	n := b.BitLen() - 1
	if new(big.Int).Lsh(big.NewInt(1), uint(n)).Cmp(b) == 0 {
		return n, true
	}
	return 0, false
}

// binop implements Go's integer binary operators on operands of type t (shift: y has type ty).
// uf collects uninterpreted functions needed (int mode bit operations).
func (m M) binop(op token.Token, x, y string, t, ty types.Type, uf func(name, decl string)) (string, error) {
	w, signed := intInfo(t)
	if m.mode == ModeBV {
		switch op {
		case token.ADD:
			return sx("bvadd", x, y), nil
		case token.SUB:
			return sx("bvsub", x, y), nil
		case token.MUL:
			return sx("bvmul", x, y), nil
		case token.QUO:
			if signed {
				return sx("bvsdiv", x, y), nil
			}
			return sx("bvudiv", x, y), nil
		case token.REM:
			if signed {
				return sx("bvsrem", x, y), nil
			}
			return sx("bvurem", x, y), nil
		case token.AND:
			return sx("bvand", x, y), nil
		case token.OR:
			return sx("bvor", x, y), nil
		case token.XOR:
			return sx("bvxor", x, y), nil
		case token.AND_NOT:
			return sx("bvand", x, sx("bvnot", y)), nil
		case token.SHL, token.SHR:
			wy, _ := intInfo(ty)
			cnt := y
			big := "false"
			if wy < w {
				cnt = sx(fmt.Sprintf("(_ zero_extend %d)", w-wy), y)
			} else if wy > w {
				big = sx("bvuge", y, m.intConstI(int64(w), ty))
				cnt = sx(fmt.Sprintf("(_ extract %d 0)", w-1), y)
			}
			big = sOr(big, sx("bvuge", cnt, m.intConstI(int64(w), t)))
			if op == token.SHL {
				return sIte(big, m.intConstI(0, t), sx("bvshl", x, cnt)), nil
			}
			if signed {
				return sIte(big, sx("bvashr", x, m.intConstI(int64(w-1), t)), sx("bvashr", x, cnt)), nil
			}
			return sIte(big, m.intConstI(0, t), sx("bvlshr", x, cnt)), nil
		}
		return "", fmt.Errorf("bv binop %v", op)
	}
	// int mode
	ufn := func(name string) string {
		f := fmt.Sprintf("%s!%d", name, w)
		uf(f, fmt.Sprintf("(declare-fun %s (Int Int) Int)", f))
		return sx(f, x, y)
	}
	cy, yConst := isConstTerm(y)
	cx, xConst := isConstTerm(x)
	switch op {
	case token.ADD:
		return m.wrap1(sx("+", x, y), t), nil
	case token.SUB:
		return m.wrap1(sx("-", x, y), t), nil
	case token.MUL:
		return m.wrap(sx("*", x, y), t), nil
	case token.QUO:
		if !signed {
			return sx("div", x, y), nil
		}
		q := sx("ite", sx(">=", x, "0"),
			sx("ite", sx(">", y, "0"), sx("div", x, y), sx("-", sx("div", x, sx("-", y)))),
			sx("ite", sx(">", y, "0"), sx("-", sx("div", sx("-", x), y)), sx("div", sx("-", x), sx("-", y))))
		return m.wrap1(q, t), nil
	case token.REM:
		if !signed {
			return sx("mod", x, y), nil
		}
		// x - y*trunc(x/y); sign follows x
		ay := sx("ite", sx(">=", y, "0"), y, sx("-", y))
		return sx("ite", sx(">=", x, "0"), sx("mod", x, ay), sx("-", sx("mod", sx("-", x), ay))), nil
	case token.AND:
		if yConst && !signed {
			if n, ok := isPow2(new(big.Int).Add(cy, big.NewInt(1))); ok {
				return sx("mod", x, pow2(n).String()), nil
			}
		}
		if xConst && !signed {
			if n, ok := isPow2(new(big.Int).Add(cx, big.NewInt(1))); ok {
				return sx("mod", y, pow2(n).String()), nil
			}
		}
		return ufn("bvand"), nil
	case token.OR:
		return ufn("bvor"), nil
	case token.XOR:
		return ufn("bvxor"), nil
	case token.AND_NOT:
		return ufn("bvandnot"), nil
	case token.SHL:
		if yConst && cy.IsInt64() && cy.Int64() >= 0 {
			if cy.Int64() >= int64(w) {
				return "0", nil
			}
			return m.wrap(sx("*", x, pow2(int(cy.Int64())).String()), t), nil
		}
		return ufn("bvshl"), nil
	case token.SHR:
		if yConst && cy.IsInt64() && cy.Int64() >= 0 {
			if cy.Int64() >= int64(w) {
				if signed {
					return sx("ite", sx("<", x, "0"), "(- 1)", "0"), nil
				}
				return "0", nil
			}
			return sx("div", x, pow2(int(cy.Int64())).String()), nil // floor division = arithmetic shift
		}
		return ufn("bvshr"), nil
	}
	return "", fmt.Errorf("int binop %v", op)
}

func (m M) cmp(op token.Token, x, y string, t types.Type) string {
	_, signed := intInfo(t)
	if m.mode == ModeBV {
		switch op {
		case token.EQL:
			return sEq(x, y)
		case token.NEQ:
			return sNot(sEq(x, y))
		}
		var o string
		switch op {
		case token.LSS:
			o = "bvult"
		case token.LEQ:
			o = "bvule"
		case token.GTR:
			o = "bvugt"
		case token.GEQ:
			o = "bvuge"
		}
		if signed {
			o = "bvs" + o[3:]
		}
		return sx(o, x, y)
	}
	switch op {
	case token.EQL:
		return sEq(x, y)
	case token.NEQ:
		return sNot(sEq(x, y))
	case token.LSS:
		return sx("<", x, y)
	case token.LEQ:
		return sx("<=", x, y)
	case token.GTR:
		return sx(">", x, y)
	case token.GEQ:
		return sx(">=", x, y)
	}
	return "false"
}

// convert integer term x of type from to type to.
func (m M) convInt(x string, from, to types.Type) string {
	wf, sf := intInfo(from)
	wt, st := intInfo(to)
	if m.mode == ModeBV {
		switch {
		case wt == wf:
			return x
		case wt < wf:
			return sx(fmt.Sprintf("(_ extract %d 0)", wt-1), x)
		default:
			if sf {
				return sx(fmt.Sprintf("(_ sign_extend %d)", wt-wf), x)
			}
			return sx(fmt.Sprintf("(_ zero_extend %d)", wt-wf), x)
		}
	}
	lf, hf := intRange(from)
	lt, ht := intRange(to)
	if lf.Cmp(lt) >= 0 && hf.Cmp(ht) <= 0 {
		return x
	}
	_ = sf
	_ = st
	if c, ok := isConstTerm(x); ok {
		r := new(big.Int).Mod(c, pow2(wt))
		if st && r.Cmp(ht) > 0 {
			r.Sub(r, pow2(wt))
		}
		return bigLit(r)
	}
	// same width sign reinterpretation is one conditional
	if wf == wt {
		if st {
			return sx("ite", sx(">", x, bigLit(ht)), sx("-", x, pow2(wt).String()), x)
		}
		return sx("ite", sx("<", x, "0"), sx("+", x, pow2(wt).String()), x)
	}
	return m.wrap(x, to)
}

func constToBig(c constant.Value) (*big.Int, bool) {
	if c == nil {
		return nil, false
	}
	switch c.Kind() {
	case constant.Int:
		if i, ok := constant.Int64Val(c); ok {
			return big.NewInt(i), true
		}
		b, ok := new(big.Int).SetString(c.ExactString(), 10)
		return b, ok
	case constant.Float:
		f := constant.ToInt(c)
		if f.Kind() == constant.Int {
			return constToBig(f)
		}
	}
	return nil, false
}

func typeKey(t types.Type) string {
	s := types.TypeString(t, func(p *types.Package) string { return shortPkg(p.Path()) })
	s = byteRe.ReplaceAllString(s, "uint8")
	s = runeRe.ReplaceAllString(s, "int32")
	return s
}

func shortPkg(p string) string {
	if p == zapxPath {
		return ""
	}
	p = strings.TrimPrefix(p, "github.com/blevesearch/")
	p = strings.TrimPrefix(p, "github.com/RoaringBitmap/")
	p = strings.TrimPrefix(p, "github.com/")
	return p
}

var byteRe = regexp.MustCompile(`\bbyte\b`)
var runeRe = regexp.MustCompile(`\brune\b`)

const zapxPath = "github.com/blevesearch/zapx/v16"
