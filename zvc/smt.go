package main

// SMT-LIB text helpers and the solver portfolio.

import (
	"bytes"
	"context"
	"crypto/sha256"
	"encoding/hex"
	"fmt"
	"os"
	"os/exec"
	"path/filepath"
	"strings"
	"sync"
	"time"
)

func sx(op string, args ...string) string {
	if len(args) == 0 {
		return op
	}
	return "(" + op + " " + strings.Join(args, " ") + ")"
}

func sAnd(args ...string) string {
	var a []string
	for _, x := range args {
		if x == "true" {
			continue
		}
		if x == "false" {
			return "false"
		}
		a = append(a, x)
	}
	switch len(a) {
	case 0:
		return "true"
	case 1:
		return a[0]
	}
	return sx("and", a...)
}

func sOr(args ...string) string {
	var a []string
	for _, x := range args {
		if x == "false" {
			continue
		}
		if x == "true" {
			return "true"
		}
		a = append(a, x)
	}
	switch len(a) {
	case 0:
		return "false"
	case 1:
		return a[0]
	}
	return sx("or", a...)
}

func sNot(a string) string {
	if a == "true" {
		return "false"
	}
	if a == "false" {
		return "true"
	}
	return sx("not", a)
}

func sImp(a, b string) string {
	if a == "true" {
		return b
	}
	if a == "false" || b == "true" {
		return "true"
	}
	return sx("=>", a, b)
}

func sIte(c, a, b string) string {
	if c == "true" {
		return a
	}
	if c == "false" {
		return b
	}
	if a == b {
		return a
	}
	return sx("ite", c, a, b)
}

func sEq(a, b string) string {
	if a == b {
		return "true"
	}
	if isNumeral(a) && isNumeral(b) {
		return "false"
	}
	return sx("=", a, b)
}

func isNumeral(s string) bool {
	if s == "" {
		return false
	}
	for _, c := range s {
		if c < '0' || c > '9' {
			return false
		}
	}
	return true
}

// quote a symbol
func sym(s string) string {
	ok := true
	for _, c := range s {
		if !(c >= 'a' && c <= 'z' || c >= 'A' && c <= 'Z' || c >= '0' && c <= '9' || c == '_' || c == '.' || c == '!' || c == '$' || c == '@') {
			ok = false
			break
		}
	}
	if ok && len(s) > 0 && !(s[0] >= '0' && s[0] <= '9') {
		return s
	}
	s = strings.ReplaceAll(s, "|", "/")
	s = strings.ReplaceAll(s, "\\", "/")
	return "|" + s + "|"
}

func intLit(v string) string {
	if strings.HasPrefix(v, "-") {
		return "(- " + v[1:] + ")"
	}
	return v
}

// ---------------------------------------------------------------------------

type SolverResult struct {
	Verdict string // unsat | sat | unknown | timeout | error
	Solver  string
	Time    float64
	Model   string
	Raw     string
	All     map[string]string // solver -> verdict
}

type solverSpec struct {
	name string
	args func(file string, timeoutS int, seed int) []string
	prep func(q string) string
}

var solvers = []solverSpec{
	{"z3-new", func(f string, t, seed int) []string {
		return []string{"z3-new", fmt.Sprintf("-T:%d", t), fmt.Sprintf("smt.random_seed=%d", seed), fmt.Sprintf("sat.random_seed=%d", seed), f}
	}, nil},
	{"z3", func(f string, t, seed int) []string {
		return []string{"/usr/bin/z3", fmt.Sprintf("-T:%d", t), fmt.Sprintf("smt.random_seed=%d", seed), f}
	}, nil},
	{"cvc5", func(f string, t, seed int) []string {
		return []string{"cvc5", "--incremental", fmt.Sprintf("--tlimit=%d", t*1000), fmt.Sprintf("--seed=%d", seed), f}
	}, func(q string) string {
		return "(set-option :produce-models true)\n(set-logic ALL)\n" + q
	}},
}

var (
	scratchDir  string
	solverSem   = make(chan struct{}, 16)
	cacheMu     sync.Mutex
	queryCache  = map[string]*SolverResult{}
	inflight    = map[string]chan struct{}{}
	enabledSolv = map[string]bool{"z3-new": true, "z3": true, "cvc5": true}
)

func initScratch() {
	d, err := os.MkdirTemp("", "zvc-q-")
	if err != nil {
		panic(err)
	}
	scratchDir = d
}

func cleanupScratch() {
	if scratchDir != "" && os.Getenv("ZVC_KEEP") == "" {
		os.RemoveAll(scratchDir)
	}
}

// runPortfolio races the solvers on one query (which must end with (check-sat)).
// wantModel adds (get-model) handling: the first "sat" answer's output is kept.
func runPortfolio(name, query string, timeoutS int, seed int) *SolverResult {
	h := sha256.Sum256([]byte(fmt.Sprintf("%d/%d/", timeoutS, seed) + query))
	key := hex.EncodeToString(h[:])
	cacheMu.Lock()
	if r, ok := queryCache[key]; ok {
		cacheMu.Unlock()
		return r
	}
	if w, ok := inflight[key]; ok {
		cacheMu.Unlock()
		<-w
		cacheMu.Lock()
		r := queryCache[key]
		cacheMu.Unlock()
		return r
	}
	done := make(chan struct{})
	inflight[key] = done
	cacheMu.Unlock()
	defer func() {
		cacheMu.Lock()
		delete(inflight, key)
		cacheMu.Unlock()
		close(done)
	}()

	base := filepath.Join(scratchDir, key[:16])
	ctx, cancel := context.WithCancel(context.Background())
	defer cancel()
	type one struct {
		solver, verdict, out string
		t               float64
	}
	ch := make(chan one, len(solvers))
	n := 0
	for _, s := range solvers {
		if !enabledSolv[s.name] {
			continue
		}
		n++
		s := s
		go func() {
			solverSem <- struct{}{}
			defer func() { <-solverSem }()
			if ctx.Err() != nil {
				ch <- one{s.name, "cancelled", "", 0}
				return
			}
			q := query
			if s.prep != nil {
				q = s.prep(q)
			}
			f := base + "." + s.name + ".smt2"
			os.WriteFile(f, []byte(q), 0644)
			args := s.args(f, timeoutS, seed)
			cmd := exec.CommandContext(ctx, args[0], args[1:]...)
			var out bytes.Buffer
			cmd.Stdout = &out
			cmd.Stderr = &out
			t0 := time.Now()
			cmd.Run()
			dt := time.Since(t0).Seconds()
			txt := out.String()
			first := strings.TrimSpace(strings.SplitN(txt, "\n", 2)[0])
			v := "error"
			switch {
			case first == "unsat", first == "sat", first == "unknown":
				v = first
			case strings.Contains(first, "timeout") || strings.Contains(txt, "interrupted") || ctx.Err() != nil:
				v = "timeout"
			case strings.Contains(txt, "timeout"):
				v = "timeout"
			}
			if os.Getenv("ZVC_KEEP") == "" {
				os.Remove(f)
			}
			ch <- one{s.name, v, txt, dt}
		}()
	}
	res := &SolverResult{Verdict: "unknown", All: map[string]string{}}
	t0 := time.Now()
	for i := 0; i < n; i++ {
		o := <-ch
		res.All[o.solver] = o.verdict
		if o.verdict == "unsat" || o.verdict == "sat" {
			if res.Verdict != "unsat" && res.Verdict != "sat" {
				res.Verdict = o.verdict
				res.Solver = o.solver
				res.Time = o.t
				res.Raw = o.out
				if o.verdict == "sat" {
					res.Model = o.out
				}
				cancel()
			} else if res.Verdict != o.verdict && o.verdict != "cancelled" {
				res.Verdict = "disagree"
			}
		} else if o.verdict == "error" && res.Raw == "" {
			res.Raw = o.solver + ": " + o.out
		}
	}
	if res.Verdict == "unknown" {
		res.Time = time.Since(t0).Seconds()
		allTO := true
		for _, v := range res.All {
			if v != "timeout" {
				allTO = false
			}
		}
		if allTO {
			res.Verdict = "timeout"
		}
	}
	_ = name
	cacheMu.Lock()
	queryCache[key] = res
	cacheMu.Unlock()
	return res
}
