package main

// Contract files: clause blocks in //@ comments, and the spec expression parser.

import (
	"encoding/json"
	"fmt"
	"os"
	"regexp"
	"strconv"
	"strings"
)

type Clause struct {
	Kind string // requires ensures invariant assert modifies propagates
	Expr *SExpr
	Text string
	Tags []string
	Ord  int    // ordinal within kind (1-based)
	Loop int    // for invariants
	Site string // for call-site asserts: callee#k
	Args []string
	Mode string // "", "int", "bv": only visible in that mode
	GhostDef bool // ensures generated from a ghostset: holds by definition, not checked against the body
	bound bool  // an assert clause matched a call site
	WF    bool  // data well-formedness precondition: checked by full-mode callers, assumed by thin-mode callers
	Local bool  // checked in the function itself, not exported to callers (may mention locals)
	File string
	Line int
}

type FuncSpec struct {
	Name      string
	Results   []string
	Params    []string
	Model     string
	Optional  bool
	GhostInits [][2]string // scalar ghost assignments at entry
	GhostSets [][3]string // ghost assignments at return: name, key expr, value expr
	Harness   bool // implementer that exists only for lemma harnesses: dispatched to only inside lemmas
	Mode      string // int | bv
	Level     string // full | thin
	Pure      bool
	Inline    bool
	Trusted   bool // contract assumed, body not verified (library)
	MayPanic  bool
	Lemma     bool
	Requires  []*Clause
	Ensures   []*Clause
	Invs      []*Clause
	Asserts   []*Clause
	Relational bool
	RelRequires []*Clause
	RelEnsures  []*Clause
	RelInvs     []*Clause
	RelAsserts  []*Clause
	Uses      []string // optional axioms this function's proof uses
	Assumes   []*Clause // explicit call-site assumptions (listed in the evidence)
	Props     []*Clause // propagates
	Tols      []*Clause // tolerates
	Follows   []*Clause // follows B after A when E
	Only      []*Clause // failsonly
	Early     []*Clause // loop N early E: what holds at every return taken from inside loop N (before its normal exit)
	NoBreak   []*Clause // loop N nobreak: the loop is left only through its head (exhausted) or by a return
	Steps     []*Clause // loop N step E: relation between the state at the loop head (prev(e)) and at the end of one iteration
	Modifies  []string
	HasMod    bool
	LoopMods  map[int][]string
	InlineFns []string // callees to inline in this function
	NoInline  []string
	Unroll    map[int]int
	File      string
	Line      int
	Tags      []string // default tags for all clauses
	Bound     bool
}

type SpecFun struct {
	Name   string
	Params []SParam
	Ret    string
	Body   *SExpr // nil = uninterpreted
	Rec    bool
	ModeOf string // "", "int", "bv": only defined in that mode
}

type SParam struct{ Name, Type string }

// Pred is a named abbreviation expanded at its use site (it may read the heap of the state it is used in).
type Pred struct {
	Name   string
	Params []string
	Body   *SExpr
}

type GhostDecl struct {
	Name string // e.g. pool.owned
	Key  string // sort of key: ref | str
	Val  string // bool | int
}

type Axiom struct {
	Optional bool // only used by functions whose contract says "uses NAME"
	Name string
	Expr *SExpr
	Mode string
	Text string
}

type Guard struct{ Type, Field, Lock string }

type SpecSet struct {
	Funcs    map[string]*FuncSpec
	Order    []string
	Invariants []*Clause // global invariants: implicit pre/postcondition of every function and invariant of every loop
	SpecFuns map[string]*SpecFun
	Ghosts   map[string]*GhostDecl
	Axioms   []*Axiom
	Guards   []Guard
	Cones    map[string][]string // property tag -> root functions: frame:pkgstate obligations of functions reachable from a root carry the tag
	PkgState map[string]string // package-level variable -> kind ("readonly" | "mutable"): the declared process-wide state
	Cleans   map[string]map[string]string // struct -> field -> condition text ("zero", "len0", "exempt:...")
	Preds    map[string]*Pred
}

func newSpecSet() *SpecSet {
	return &SpecSet{Funcs: map[string]*FuncSpec{}, SpecFuns: map[string]*SpecFun{}, Ghosts: map[string]*GhostDecl{}, Cleans: map[string]map[string]string{}, Preds: map[string]*Pred{}, PkgState: map[string]string{}, Cones: map[string][]string{}}
}

var tagRe = regexp.MustCompile(`\s*\[((?:C\d+)(?:\s*,\s*C\d+)*)\]\s*$`)

func (ss *SpecSet) parseFile(path string) error {
	data, err := os.ReadFile(path)
	if err != nil {
		return err
	}
	lines := strings.Split(string(data), "\n")
	// join continuation lines
	type ln struct {
		text string
		no   int
	}
	var ls []ln
	for i, l := range lines {
		t := strings.TrimSpace(l)
		if strings.HasPrefix(t, "//@+") {
			if len(ls) == 0 {
				return fmt.Errorf("%s:%d: continuation without clause", path, i+1)
			}
			ls[len(ls)-1].text += " " + strings.TrimSpace(t[4:])
			continue
		}
		if strings.HasPrefix(t, "//@") {
			ls = append(ls, ln{strings.TrimSpace(t[3:]), i + 1})
		}
	}
	var cur *FuncSpec
	for _, l := range ls {
		t := l.text
		if t == "" {
			continue
		}
		var tags []string
		if m := tagRe.FindStringSubmatch(t); m != nil {
			for _, x := range strings.Split(m[1], ",") {
				tags = append(tags, strings.TrimSpace(x))
			}
			t = strings.TrimSpace(t[:len(t)-len(m[0])])
		}
		kw, rest := t, ""
		if i := strings.IndexAny(t, " \t"); i >= 0 {
			kw, rest = t[:i], strings.TrimSpace(t[i+1:])
		}
		cwf := false
		if kw == "wf" && strings.HasPrefix(rest, "requires ") {
			cwf = true
			kw, rest = "requires", strings.TrimSpace(rest[9:])
		}
		clocal := false
		if kw == "local" && strings.HasPrefix(rest, "ensures ") {
			clocal = true
			kw, rest = "ensures", strings.TrimSpace(rest[8:])
		}
		cmode := ""
		if (kw == "int" || kw == "bv") && (strings.HasPrefix(rest, "requires ") || strings.HasPrefix(rest, "ensures ") || strings.HasPrefix(rest, "loop ") || strings.HasPrefix(rest, "assert ")) {
			cmode = kw
			i := strings.IndexAny(rest, " \t")
			kw, rest = rest[:i], strings.TrimSpace(rest[i+1:])
		}
		fail := func(f string, a ...any) error {
			return fmt.Errorf("%s:%d: %s", path, l.no, fmt.Sprintf(f, a...))
		}
		mk := func(kind, text string) (*Clause, error) {
			e, err := parseSExpr(text)
			if err != nil {
				return nil, fail("%v in %q", err, text)
			}
			tg := tags
			if tg == nil && cur != nil {
				tg = cur.Tags
			}
			return &Clause{Kind: kind, Expr: e, Text: text, Tags: tg, File: path, Line: l.no, Mode: cmode, Local: clocal, WF: cwf}, nil
		}
		if kw == "relational" {
			cur.Relational = true
			continue
		}
		if kw == "rel" {
			// rel requires E | rel ensures E | rel loop N invariant E | rel assert site : E
			f := strings.Fields(rest)
			if len(f) < 2 || cur == nil {
				return fail("bad rel clause")
			}
			cur.Relational = true
			body := strings.TrimSpace(strings.TrimPrefix(rest, f[0]))
			switch f[0] {
			case "requires", "ensures":
				c, err := mk("rel-"+f[0], body)
				if err != nil {
					return err
				}
				if f[0] == "requires" {
					c.Ord = len(cur.RelRequires) + 1
					cur.RelRequires = append(cur.RelRequires, c)
				} else {
					c.Ord = len(cur.RelEnsures) + 1
					cur.RelEnsures = append(cur.RelEnsures, c)
				}
			case "loop":
				n, err := strconv.Atoi(f[1])
				if err != nil || len(f) < 4 || f[2] != "invariant" {
					return fail("rel loop N invariant E")
				}
				body = strings.TrimSpace(body[strings.Index(body, "invariant")+9:])
				c, err := mk("rel-invariant", body)
				if err != nil {
					return err
				}
				c.Loop = n
				c.Ord = len(cur.RelInvs) + 1
				cur.RelInvs = append(cur.RelInvs, c)
			case "assert":
				i := strings.Index(body, ":")
				if i < 0 {
					return fail("rel assert site : expr")
				}
				c, err := mk("rel-assert", strings.TrimSpace(body[i+1:]))
				if err != nil {
					return err
				}
				c.Site = strings.TrimSpace(body[:i])
				c.Ord = len(cur.RelAsserts) + 1
				cur.RelAsserts = append(cur.RelAsserts, c)
			default:
				return fail("bad rel clause")
			}
			continue
		}
		if kw == "uses" && cur != nil {
			for _, x := range strings.Split(rest, ",") {
				if x = strings.TrimSpace(x); x != "" {
					cur.Uses = append(cur.Uses, x)
				}
			}
			continue
		}
		switch kw {
		case "func", "lemma":
			name := rest
			var results []string
			if i := strings.Index(rest, " returns "); i >= 0 {
				name = strings.TrimSpace(rest[:i])
				r := strings.TrimSpace(rest[i+9:])
				r = strings.Trim(r, "()")
				for _, x := range strings.Split(r, ",") {
					results = append(results, strings.TrimSpace(x))
				}
			}
			var params []string
			if strings.HasSuffix(name, ")") {
				if i := strings.LastIndex(name, "("); i > 0 && name[i-1] != ' ' && name[i-1] != '.' && i > strings.LastIndex(name, ").") {
					ps := name[i+1 : len(name)-1]
					name = name[:i]
					for _, x := range strings.Split(ps, ",") {
						params = append(params, strings.TrimSpace(x))
					}
				}
			}
			if _, dup := ss.Funcs[name]; dup {
				return fail("duplicate contract for %s", name)
			}
			cur = &FuncSpec{Name: name, Results: results, Mode: "int", Level: "full", LoopMods: map[int][]string{}, Unroll: map[int]int{}, File: path, Line: l.no, Tags: tags, Lemma: kw == "lemma", Params: params}
			ss.Funcs[name] = cur
			ss.Order = append(ss.Order, name)
		case "end":
			cur = nil
		case "mode":
			if cur == nil {
				return fail("mode outside func")
			}
			cur.Mode = rest
		case "full", "thin":
			cur.Level = kw
		case "pure":
			cur.Pure = true
		case "inline":
			if rest == "" {
				cur.Inline = true
			} else {
				for _, x := range strings.Split(rest, ",") {
					cur.InlineFns = append(cur.InlineFns, strings.TrimSpace(x))
				}
			}
		case "noinline":
			for _, x := range strings.Split(rest, ",") {
				cur.NoInline = append(cur.NoInline, strings.TrimSpace(x))
			}
		case "trusted":
			cur.Trusted = true
		case "model":
			cur.Model = rest
			cur.Trusted = true
		case "optional":
			cur.Optional = true
		case "harness":
			cur.Harness = true
		case "maypanic":
			cur.MayPanic = true
		case "tags":
			cur.Tags = tags
		case "ghostinit":
			// ghostinit $name = expr : scalar ghost assignment performed when the function is entered
			eq := strings.Index(rest, "=")
			if cur == nil || eq < 0 || !strings.HasPrefix(strings.TrimSpace(rest), "$") {
				return fail("ghostinit $name = expr")
			}
			cur.GhostInits = append(cur.GhostInits, [2]string{strings.TrimSpace(rest[1:eq]), strings.TrimSpace(rest[eq+1:])})
		case "ghostset":
			// ghostset NAME[key] = expr : ghost assignment performed when the function returns (specification-only state)
			if cur == nil {
				return fail("ghostset outside func")
			}
			eq := strings.Index(rest, "=")
			if eq < 0 {
				return fail("ghostset NAME[key] = expr")
			}
			var name, key string
			val := strings.TrimSpace(rest[eq+1:])
			text := ""
			if strings.HasPrefix(strings.TrimSpace(rest), "$") {
				// scalar ghost: ghostset $name = expr
				name = strings.TrimSpace(rest[1:eq])
				text = "$" + name + " == (" + val + ")"
			} else {
				lb := strings.Index(rest, "[")
				rb := strings.LastIndex(rest[:eq], "]")
				if lb < 0 || rb < lb {
					return fail("ghostset NAME[key] = expr")
				}
				name = strings.TrimSpace(rest[:lb])
				key = strings.TrimSpace(rest[lb+1 : rb])
				text = name + "(" + key + ") == (" + val + ")"
			}
			cur.GhostSets = append(cur.GhostSets, [3]string{name, key, val})
			c, err := mk("ensures", text)
			if err != nil {
				return err
			}
			c.GhostDef = true
			c.Ord = len(cur.Ensures) + 1
			cur.Ensures = append(cur.Ensures, c)
		case "requires", "ensures":
			if cur == nil {
				return fail("%s outside func", kw)
			}
			c, err := mk(kw, rest)
			if err != nil {
				return err
			}
			if kw == "requires" {
				c.Ord = len(cur.Requires) + 1
				cur.Requires = append(cur.Requires, c)
			} else {
				c.Ord = len(cur.Ensures) + 1
				cur.Ensures = append(cur.Ensures, c)
			}
		case "modifies":
			cur.HasMod = true
			if rest != "" && rest != "nothing" {
				for _, x := range splitTop(rest) {
					cur.Modifies = append(cur.Modifies, strings.TrimSpace(x))
				}
			}
		case "loop":
			// loop N invariant E | loop N modifies a,b | loop N unroll k
			f := strings.Fields(rest)
			if len(f) < 2 {
				return fail("bad loop clause")
			}
			n, err := strconv.Atoi(f[0])
			if err != nil {
				return fail("bad loop ordinal")
			}
			body := strings.TrimSpace(strings.TrimPrefix(strings.TrimSpace(strings.TrimPrefix(rest, f[0])), f[1]))
			switch f[1] {
			case "invariant":
				c, err := mk("invariant", body)
				if err != nil {
					return err
				}
				c.Loop = n
				cnt := 0
				for _, x := range cur.Invs {
					if x.Loop == n {
						cnt++
					}
				}
				c.Ord = cnt + 1
				cur.Invs = append(cur.Invs, c)
			case "nobreak":
				c := &Clause{Kind: "nobreak", Text: "loop " + f[0] + " nobreak", Tags: tags, File: path, Line: l.no, Loop: n}
				if c.Tags == nil {
					c.Tags = cur.Tags
				}
				c.Ord = len(cur.NoBreak) + 1
				cur.NoBreak = append(cur.NoBreak, c)
			case "early":
				c, err := mk("early", body)
				if err != nil {
					return err
				}
				c.Loop = n
				cnt := 0
				for _, x := range cur.Early {
					if x.Loop == n {
						cnt++
					}
				}
				c.Ord = cnt + 1
				cur.Early = append(cur.Early, c)
			case "step":
				c, err := mk("step", body)
				if err != nil {
					return err
				}
				c.Loop = n
				cnt := 0
				for _, x := range cur.Steps {
					if x.Loop == n {
						cnt++
					}
				}
				c.Ord = cnt + 1
				cur.Steps = append(cur.Steps, c)
			case "modifies":
				for _, x := range strings.Split(body, ",") {
					cur.LoopMods[n] = append(cur.LoopMods[n], strings.TrimSpace(x))
				}
			case "unroll":
				k, _ := strconv.Atoi(body)
				cur.Unroll[n] = k
				cur.Bound = true
			default:
				return fail("bad loop clause %q", f[1])
			}
		case "assert":
			// assert@site E    where site = callee#k  (before the k-th call of callee)
			// written: assert callee#k : E
			i := strings.Index(rest, ":")
			if i < 0 {
				return fail("assert needs 'site : expr'")
			}
			c, err := mk("assert", strings.TrimSpace(rest[i+1:]))
			if err != nil {
				return err
			}
			c.Site = strings.TrimSpace(rest[:i])
			c.Ord = len(cur.Asserts) + 1
			cur.Asserts = append(cur.Asserts, c)
		case "assume":
			// assume callee#k : E   (after the k-th call of callee; old() = state before the call). An explicit, reported assumption.
			i := strings.Index(rest, ":")
			if i < 0 {
				return fail("assume needs 'site : expr'")
			}
			c, err := mk("assume", strings.TrimSpace(rest[i+1:]))
			if err != nil {
				return err
			}
			c.Site = strings.TrimSpace(rest[:i])
			c.Ord = len(cur.Assumes) + 1
			cur.Assumes = append(cur.Assumes, c)
		case "propagates":
			// propagates RESULT from f, g
			f := strings.SplitN(rest, " from ", 2)
			if len(f) != 2 {
				return fail("propagates X from f, g")
			}
			tg := tags
			if tg == nil {
				tg = cur.Tags
			}
			c := &Clause{Kind: "propagates", Text: rest, Tags: tg, File: path, Line: l.no, Ord: len(cur.Props) + 1}
			c.Args = append(c.Args, strings.TrimSpace(f[0]))
			for _, x := range strings.Split(f[1], ",") {
				c.Args = append(c.Args, strings.TrimSpace(x))
			}
			cur.Props = append(cur.Props, c)
		case "failsonly":
			// failsonly RESULT from f, g [unless EXPR]: a non-nil RESULT implies that a listed callee returned a non-nil
			// error on this path (or EXPR holds at the exit)
			f := strings.SplitN(rest, " from ", 2)
			if len(f) != 2 {
				return fail("failsonly X from f, g [unless E]")
			}
			un := strings.SplitN(f[1], " unless ", 2)
			etxt := "false"
			if len(un) == 2 {
				etxt = strings.TrimSpace(un[1])
			}
			c, err := mk("failsonly", etxt)
			if err != nil {
				return err
			}
			c.Text = rest
			c.Ord = len(cur.Only) + 1
			c.Args = append(c.Args, strings.TrimSpace(f[0]))
			for _, x := range strings.Split(un[0], ",") {
				c.Args = append(c.Args, strings.TrimSpace(x))
			}
			cur.Only = append(cur.Only, c)
		case "follows":
			// follows B after A when E: on every successful path on which a call of A returned with E (over A's result
			// names, written $name), some call of B is made afterwards
			f := strings.SplitN(rest, " after ", 2)
			var g2 []string
			if len(f) == 2 {
				g2 = strings.SplitN(f[1], " when ", 2)
			}
			if len(f) != 2 || len(g2) != 2 {
				return fail("follows B after A when E")
			}
			c, err := mk("follows", strings.TrimSpace(g2[1]))
			if err != nil {
				return err
			}
			c.Text = rest
			c.Ord = len(cur.Follows) + 1
			c.Args = []string{strings.TrimSpace(f[0]), strings.TrimSpace(g2[0])}
			cur.Follows = append(cur.Follows, c)
		case "tolerates":
			// tolerates EXPR as RESULT from f, g
			f := strings.SplitN(rest, " from ", 2)
			g2 := []string{}
			if len(f) == 2 {
				g2 = strings.SplitN(f[0], " as ", 2)
			}
			if len(f) != 2 || len(g2) != 2 {
				return fail("tolerates EXPR as RESULT from f, g")
			}
			c, err := mk("tolerates", strings.TrimSpace(g2[0]))
			if err != nil {
				return err
			}
			c.Text = rest
			c.Ord = len(cur.Tols) + 1
			c.Args = append(c.Args, strings.TrimSpace(g2[1]))
			for _, x := range strings.Split(f[1], ",") {
				c.Args = append(c.Args, strings.TrimSpace(x))
			}
			cur.Tols = append(cur.Tols, c)
		case "specfun", "specfunrec":
			// specfun [mode] name(a T, b T) R = body   |  specfun name(a T) R
			sf, err := parseSpecFun(rest)
			if err != nil {
				return fail("%v", err)
			}
			sf.Rec = kw == "specfunrec"
			ss.SpecFuns[sf.Name] = sf
		case "pred":
			// pred name(a, b) = expr
			lp := strings.Index(rest, "(")
			rp := strings.Index(rest, ")")
			eq := strings.Index(rest, "=")
			if lp < 0 || rp < lp || eq < rp {
				return fail("pred name(params) = expr")
			}
			pr := &Pred{Name: strings.TrimSpace(rest[:lp])}
			for _, x := range strings.Split(rest[lp+1:rp], ",") {
				if strings.TrimSpace(x) != "" {
					pr.Params = append(pr.Params, strings.TrimSpace(x))
				}
			}
			e, err := parseSExpr(strings.TrimSpace(rest[eq+1:]))
			if err != nil {
				return fail("%v", err)
			}
			pr.Body = e
			ss.Preds[pr.Name] = pr
		case "ghost":
			// ghost name key val
			f := strings.Fields(rest)
			if len(f) != 3 {
				return fail("ghost name keysort valsort")
			}
			ss.Ghosts[f[0]] = &GhostDecl{Name: f[0], Key: f[1], Val: f[2]}
		case "axiom":
			// axiom [int|bv] name : expr
			i := strings.Index(rest, ":")
			if i < 0 {
				return fail("axiom name : expr")
			}
			hd := strings.Fields(rest[:i])
			ax := &Axiom{Text: strings.TrimSpace(rest[i+1:])}
			for len(hd) > 1 {
				switch hd[0] {
				case "int", "bv":
					ax.Mode = hd[0]
				case "optional":
					ax.Optional = true
				default:
					return fail("axiom [int|bv] [optional] name : expr")
				}
				hd = hd[1:]
			}
			ax.Name = hd[0]
			e, err := parseSExpr(ax.Text)
			if err != nil {
				return fail("%v", err)
			}
			ax.Expr = e
			ss.Axioms = append(ss.Axioms, ax)
		case "invariant":
			// invariant name : expr   (global: holds at every function boundary and every loop head)
			i := strings.Index(rest, ":")
			if i < 0 || cur != nil {
				return fail("invariant name : expr (outside func)")
			}
			c, err := mk("global-invariant", strings.TrimSpace(rest[i+1:]))
			if err != nil {
				return err
			}
			c.Site = strings.TrimSpace(rest[:i])
			c.Ord = 900 + len(ss.Invariants)
			ss.Invariants = append(ss.Invariants, c)
		case "cone":
			// cone TAG root, root
			f := strings.SplitN(rest, " ", 2)
			if len(f) != 2 {
				return fail("cone TAG root, root")
			}
			for _, r := range strings.Split(f[1], ",") {
				ss.Cones[f[0]] = append(ss.Cones[f[0]], strings.TrimSpace(r))
			}
		case "pkgstate":
			// pkgstate NAME readonly|mutable reason...
			f := strings.Fields(rest)
			if len(f) < 2 || (f[1] != "readonly" && f[1] != "mutable") {
				return fail("pkgstate NAME readonly|mutable reason")
			}
			ss.PkgState[f[0]] = f[1]
		case "guarded":
			// guarded T.f by m
			f := strings.Fields(rest)
			if len(f) != 3 || f[1] != "by" {
				return fail("guarded T.f by m")
			}
			tf := strings.SplitN(f[0], ".", 2)
			ss.Guards = append(ss.Guards, Guard{tf[0], tf[1], f[2]})
		case "clean":
			// clean T.f cond
			f := strings.SplitN(rest, " ", 2)
			tf := strings.SplitN(f[0], ".", 2)
			if len(f) != 2 || len(tf) != 2 {
				return fail("clean T.f cond")
			}
			if ss.Cleans[tf[0]] == nil {
				ss.Cleans[tf[0]] = map[string]string{}
			}
			ss.Cleans[tf[0]][tf[1]] = strings.TrimSpace(f[1])
		default:
			return fail("unknown clause keyword %q", kw)
		}
	}
	return nil
}

func parseSpecFun(s string) (*SpecFun, error) {
	sf := &SpecFun{}
	if strings.HasPrefix(s, "int ") || strings.HasPrefix(s, "bv ") {
		i := strings.Index(s, " ")
		sf.ModeOf = s[:i]
		s = strings.TrimSpace(s[i:])
	}
	lp := strings.Index(s, "(")
	rp := strings.Index(s, ")")
	if lp < 0 || rp < lp {
		return nil, fmt.Errorf("bad specfun header")
	}
	sf.Name = strings.TrimSpace(s[:lp])
	ps := strings.TrimSpace(s[lp+1 : rp])
	if ps != "" {
		for _, p := range strings.Split(ps, ",") {
			f := strings.Fields(p)
			if len(f) != 2 {
				return nil, fmt.Errorf("bad specfun param %q", p)
			}
			sf.Params = append(sf.Params, SParam{f[0], f[1]})
		}
	}
	rest := strings.TrimSpace(s[rp+1:])
	if i := strings.Index(rest, "="); i >= 0 {
		sf.Ret = strings.TrimSpace(rest[:i])
		e, err := parseSExpr(strings.TrimSpace(rest[i+1:]))
		if err != nil {
			return nil, err
		}
		sf.Body = e
	} else {
		sf.Ret = rest
	}
	return sf, nil
}

// ---------------------------------------------------------------------------
// spec expressions

type SExpr struct {
	Op   string // lit ident nil true false unary binary call index slice sel old forall exists ite
	Name string // ident name, operator, field, literal text
	Args []*SExpr
	Vars []SParam // quantifier vars
	Trig []*SExpr // quantifier triggers (first group)
	Trigs [][]*SExpr // all trigger groups
}

func (e *SExpr) String() string {
	switch e.Op {
	case "lit", "ident":
		return e.Name
	case "unary":
		return e.Name + e.Args[0].String()
	case "binary":
		return "(" + e.Args[0].String() + " " + e.Name + " " + e.Args[1].String() + ")"
	case "call":
		var a []string
		for _, x := range e.Args {
			a = append(a, x.String())
		}
		return e.Name + "(" + strings.Join(a, ", ") + ")"
	case "index":
		return e.Args[0].String() + "[" + e.Args[1].String() + "]"
	case "sel":
		return e.Args[0].String() + "." + e.Name
	case "old":
		return "old(" + e.Args[0].String() + ")"
	}
	return e.Op
}

type tok struct {
	k string // num ident op eof
	s string
}

func lexSpec(s string) ([]tok, error) {
	var ts []tok
	i := 0
	for i < len(s) {
		c := s[i]
		switch {
		case c == ' ' || c == '\t':
			i++
		case c >= '0' && c <= '9':
			j := i
			for j < len(s) && (s[j] >= '0' && s[j] <= '9' || s[j] >= 'a' && s[j] <= 'f' || s[j] >= 'A' && s[j] <= 'F' || s[j] == 'x' || s[j] == 'X' || s[j] == '_') {
				j++
			}
			ts = append(ts, tok{"num", strings.ReplaceAll(s[i:j], "_", "")})
			i = j
		case c == '_' || c == '$' || c >= 'a' && c <= 'z' || c >= 'A' && c <= 'Z':
			j := i
			for j < len(s) && (s[j] == '_' || s[j] == '$' || s[j] >= 'a' && s[j] <= 'z' || s[j] >= 'A' && s[j] <= 'Z' || s[j] >= '0' && s[j] <= '9') {
				j++
			}
			ts = append(ts, tok{"ident", s[i:j]})
			i = j
		case c == '"':
			j := i + 1
			for j < len(s) && s[j] != '"' {
				j++
			}
			if j >= len(s) {
				return nil, fmt.Errorf("unterminated string")
			}
			ts = append(ts, tok{"str", s[i+1 : j]})
			i = j + 1
		default:
			ops := []string{"<==>", "==>", "::", "&&", "||", "==", "!=", "<=", ">=", "<<", ">>", "&^", "+", "-", "*", "/", "%", "&", "|", "^", "<", ">", "!", "(", ")", "[", "]", "{", "}", ".", ",", ":", "#"}
			found := false
			for _, o := range ops {
				if strings.HasPrefix(s[i:], o) {
					ts = append(ts, tok{"op", o})
					i += len(o)
					found = true
					break
				}
			}
			if !found {
				return nil, fmt.Errorf("unexpected character %q", c)
			}
		}
	}
	ts = append(ts, tok{"eof", ""})
	return ts, nil
}

type sparser struct {
	ts []tok
	p  int
}

func parseSExpr(s string) (*SExpr, error) {
	ts, err := lexSpec(s)
	if err != nil {
		return nil, err
	}
	p := &sparser{ts: ts}
	e, err := p.expr()
	if err != nil {
		return nil, err
	}
	if p.peek().k != "eof" {
		return nil, fmt.Errorf("trailing input at %q", p.peek().s)
	}
	return e, nil
}

func (p *sparser) peek() tok { return p.ts[p.p] }
func (p *sparser) next() tok { t := p.ts[p.p]; p.p++; return t }
func (p *sparser) isOp(s string) bool {
	t := p.peek()
	return t.k == "op" && t.s == s
}
func (p *sparser) expect(s string) error {
	if !p.isOp(s) {
		return fmt.Errorf("expected %q, got %q", s, p.peek().s)
	}
	p.p++
	return nil
}

func (p *sparser) expr() (*SExpr, error) {
	t := p.peek()
	if t.k == "ident" && (t.s == "forall" || t.s == "exists") {
		p.next()
		var vars []SParam
		for {
			n := p.next()
			if n.k != "ident" {
				return nil, fmt.Errorf("quantifier variable expected")
			}
			ty := p.next()
			if ty.k != "ident" {
				return nil, fmt.Errorf("quantifier type expected")
			}
			vars = append(vars, SParam{n.s, ty.s})
			if p.isOp(",") {
				p.next()
				continue
			}
			break
		}
		if err := p.expect("::"); err != nil {
			return nil, err
		}
		var trig []*SExpr
		var groups [][]*SExpr
		for p.isOp("{") {
			p.next()
			var g []*SExpr
			for !p.isOp("}") {
				e, err := p.postfix()
				if err != nil {
					return nil, err
				}
				g = append(g, e)
				if p.isOp(",") {
					p.next()
				}
			}
			p.next()
			groups = append(groups, g)
		}
		if len(groups) > 0 {
			trig = groups[0]
		}
		body, err := p.expr()
		if err != nil {
			return nil, err
		}
		return &SExpr{Op: t.s, Vars: vars, Args: []*SExpr{body}, Trig: trig, Trigs: groups}, nil
	}
	return p.iff()
}

func (p *sparser) iff() (*SExpr, error) {
	l, err := p.implies()
	if err != nil {
		return nil, err
	}
	for p.isOp("<==>") {
		p.next()
		r, err := p.implies()
		if err != nil {
			return nil, err
		}
		l = &SExpr{Op: "binary", Name: "<==>", Args: []*SExpr{l, r}}
	}
	return l, nil
}

func (p *sparser) implies() (*SExpr, error) {
	l, err := p.or()
	if err != nil {
		return nil, err
	}
	if p.isOp("==>") {
		p.next()
		var r *SExpr
		if t := p.peek(); t.k == "ident" && (t.s == "forall" || t.s == "exists") {
			r, err = p.expr()
		} else {
			r, err = p.implies()
		}
		if err != nil {
			return nil, err
		}
		return &SExpr{Op: "binary", Name: "==>", Args: []*SExpr{l, r}}, nil
	}
	return l, nil
}

func (p *sparser) binLevel(ops []string, sub func() (*SExpr, error)) (*SExpr, error) {
	l, err := sub()
	if err != nil {
		return nil, err
	}
	for {
		t := p.peek()
		hit := false
		if t.k == "op" {
			for _, o := range ops {
				if t.s == o {
					hit = true
				}
			}
		}
		if !hit {
			return l, nil
		}
		p.next()
		r, err := sub()
		if err != nil {
			return nil, err
		}
		l = &SExpr{Op: "binary", Name: t.s, Args: []*SExpr{l, r}}
	}
}

func (p *sparser) or() (*SExpr, error)  { return p.binLevel([]string{"||"}, p.and) }
func (p *sparser) and() (*SExpr, error) { return p.binLevel([]string{"&&"}, p.cmp) }
func (p *sparser) cmp() (*SExpr, error) {
	return p.binLevel([]string{"==", "!=", "<", "<=", ">", ">="}, p.add)
}
func (p *sparser) add() (*SExpr, error) { return p.binLevel([]string{"+", "-", "|", "^"}, p.mul) }
func (p *sparser) mul() (*SExpr, error) {
	return p.binLevel([]string{"*", "/", "%", "<<", ">>", "&", "&^"}, p.unary)
}

func (p *sparser) unary() (*SExpr, error) {
	t := p.peek()
	if t.k == "op" && (t.s == "!" || t.s == "-" || t.s == "^") {
		p.next()
		x, err := p.unary()
		if err != nil {
			return nil, err
		}
		return &SExpr{Op: "unary", Name: t.s, Args: []*SExpr{x}}, nil
	}
	return p.postfix()
}

func (p *sparser) postfix() (*SExpr, error) {
	x, err := p.primary()
	if err != nil {
		return nil, err
	}
	for {
		switch {
		case p.isOp("."):
			p.next()
			n := p.next()
			if n.k != "ident" {
				return nil, fmt.Errorf("field name expected")
			}
			x = &SExpr{Op: "sel", Name: n.s, Args: []*SExpr{x}}
		case p.isOp("["):
			p.next()
			var lo, hi *SExpr
			if !p.isOp(":") {
				lo, err = p.expr()
				if err != nil {
					return nil, err
				}
			}
			if p.isOp(":") {
				p.next()
				if !p.isOp("]") {
					hi, err = p.expr()
					if err != nil {
						return nil, err
					}
				}
				if err := p.expect("]"); err != nil {
					return nil, err
				}
				x = &SExpr{Op: "slice", Args: []*SExpr{x, lo, hi}}
			} else {
				if err := p.expect("]"); err != nil {
					return nil, err
				}
				x = &SExpr{Op: "index", Args: []*SExpr{x, lo}}
			}
		case p.isOp("("):
			if x.Op != "ident" {
				return nil, fmt.Errorf("call of non-identifier")
			}
			p.next()
			var args []*SExpr
			for !p.isOp(")") {
				a, err := p.expr()
				if err != nil {
					return nil, err
				}
				args = append(args, a)
				if p.isOp(",") {
					p.next()
				}
			}
			p.next()
			if x.Name == "old" {
				if len(args) != 1 {
					return nil, fmt.Errorf("old takes one argument")
				}
				x = &SExpr{Op: "old", Args: args}
			} else {
				x = &SExpr{Op: "call", Name: x.Name, Args: args}
			}
		default:
			return x, nil
		}
	}
}

func (p *sparser) primary() (*SExpr, error) {
	t := p.next()
	switch t.k {
	case "num":
		return &SExpr{Op: "lit", Name: t.s}, nil
	case "str":
		return &SExpr{Op: "str", Name: t.s}, nil
	case "ident":
		return &SExpr{Op: "ident", Name: t.s}, nil
	case "op":
		if t.s == "(" {
			e, err := p.expr()
			if err != nil {
				return nil, err
			}
			if err := p.expect(")"); err != nil {
				return nil, err
			}
			return e, nil
		}
	}
	return nil, fmt.Errorf("unexpected token %q", t.s)
}

// splitTop splits on commas that are not nested in brackets or parentheses.
func splitTop(s string) []string {
	var out []string
	depth, start := 0, 0
	for i, c := range s {
		switch c {
		case '(', '[':
			depth++
		case ')', ']':
			depth--
		case ',':
			if depth == 0 {
				out = append(out, s[start:i])
				start = i + 1
			}
		}
	}
	return append(out, s[start:])
}

// DepTag: a property tag added to a contract clause because a proof tagged with that property rests on the clause
// (computed by the proof-dependency audit, see depsAudit).
type DepTag struct {
	Owner string   `json:"owner"`
	Kind  string   `json:"kind"`
	Text  string   `json:"text"`
	Add   []string `json:"add"`
	Why   []string `json:"because,omitempty"`
}

func (ss *SpecSet) applyDepTags(path string) error {
	b, err := os.ReadFile(path)
	if err != nil {
		return nil // no table: declared tags only
	}
	var ds []DepTag
	if err := json.Unmarshal(b, &ds); err != nil {
		return fmt.Errorf("%s: %v", path, err)
	}
	for _, d := range ds {
		sp := ss.Funcs[d.Owner]
		if sp == nil {
			continue // contract of another build
		}
		for _, cs := range [][]*Clause{sp.Requires, sp.Ensures, sp.Invs} {
			for _, c := range cs {
				if c.Kind != d.Kind || c.Text != d.Text {
					continue
				}
				if len(c.Tags) == 0 {
					// the clause is checked under every tag of its function: widen the function
					for _, t := range d.Add {
						if !hasTag(sp.Tags, t) {
							sp.Tags = append(append([]string(nil), sp.Tags...), t)
						}
					}
					continue
				}
				for _, t := range d.Add {
					if !hasTag(c.Tags, t) {
						c.Tags = append(append([]string(nil), c.Tags...), t)
					}
				}
			}
		}
	}
	return nil
}
